#!/bin/bash
# tools/confirm_seeded.sh <ID> <n> : confirm in the scratch worktree $WTROOT/<ID> (default /tmp/wt2; stored as <ID>-<n+OFFSET>) that patch<n>.diff
# (a) compiles, (b) passes the unedited baseline suite, (c) makes demo_<ID>_<n> fail, and that the
# demo passes without it. On success stores it as /verif/seeded/<ID>-<n>/.
ID="$1"; N="$2"; WTROOT=${WTROOT:-/tmp/wt2}; OFFSET=${OFFSET:-2}; WT=$WTROOT/$ID; M=$((N+OFFSET))
cd $WT || exit 2
export CARGO_NET_OFFLINE=true
git checkout -q -- src
R=""
git apply patch$N.diff || { echo "$ID-$N: patch does not apply"; exit 1; }
cargo build --offline -q 2>/dev/null || R="$R nobuild"
base=$(cargo test --workspace --no-fail-fast --offline -j 4 2>&1 | grep -E "^test result" | head -1)
echo "$ID-$N baseline with patch: $base"
echo "$base" | grep -q "36 passed; 0 failed" || R="$R baseline-fails"
cargo test --offline --features instrumentation -j 4 --test demo_${ID}_$N > $WTROOT/demo_${ID}_${N}_with.log 2>&1; w=$?
git checkout -q -- src
cargo test --offline --features instrumentation -j 4 --test demo_${ID}_$N > $WTROOT/demo_${ID}_${N}_without.log 2>&1; wo=$?
echo "$ID-$N demo exit with patch=$w without=$wo"
[ $w -ne 0 ] || R="$R demo-passes-with-patch"
[ $wo -eq 0 ] || R="$R demo-fails-without-patch"
if [ -z "$R" ]; then
  D=/verif/seeded/$ID-$M; mkdir -p $D
  cp patch$N.diff $D/patch.diff
  cp tests/demo_${ID}_$N.rs $D/demo_${ID}_$M.rs 2>/dev/null
  cp NOTES.md $D/NOTES.agent.md
  echo "$ID-$N CONFIRMED as $ID-$M"
else
  echo "$ID-$N REJECTED:$R"
fi
