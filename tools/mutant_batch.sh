#!/bin/bash
# tools/mutant_batch.sh "<ID:patchfile:checkid[:scenario]> ..." : run each seeded change against a check
for item in "$@"; do
  IFS=: read -r name patch cid scen <<<"$item"
  extra=(); [ -n "$scen" ] && extra=(--scenario "$scen")
  echo "##### $name -> check $cid ${scen:+scenario $scen}"
  /verif/tools/mutant.sh "$patch" "$cid" 30 "${extra[@]}" 2>&1 | grep -E "VIOLATION|KNOWN|HARNESS|runs \(|check exit|patch does not|violation class" | head -8
done
