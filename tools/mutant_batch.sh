#!/bin/bash
# tools/mutant_batch.sh "<name:patchfile:checkid[:scenario[:budget]]> ..." : run each seeded change against a check
for item in "$@"; do
  IFS=: read -r name patch cid scen bud <<<"$item"
  extra=(); [ -n "$scen" ] && extra=(--scenario "$scen")
  echo "##### $name -> check $cid ${scen:+scenario $scen}"
  /verif/tools/mutant.sh "$patch" "$cid" "${bud:-30}" "${extra[@]}" 2>&1
done
