#!/bin/bash
# tools/mutant.sh <patch> <ID> [budget-secs] [extra check args]
# Apply a seeded change to /repo, run the check (evidence and replays go to a scratch verif dir),
# then restore /repo. Prints the tail of the check output.
PATCH="$1"; ID="$2"; B="${3:-30}"; shift 3 || shift 2
SCR=/dev/shm/mutverif; rm -rf $SCR; mkdir -p $SCR
cp /verif/known_findings.json $SCR/ 2>/dev/null
cd /repo || exit 2
git diff --quiet && git diff --cached --quiet || { echo "repo dirty, refusing"; exit 2; }
if ! git apply "$PATCH" 2>/dev/null; then
  git apply --3way "$PATCH" 2>/dev/null || { echo "patch does not apply"; git reset -q --hard HEAD; exit 3; }
fi
trap 'git -C /repo reset -q --hard HEAD' EXIT
cd /verif
timeout 1500 ./check "$ID" --budget-secs "$B" --verif-dir $SCR "$@" > $SCR/out.txt 2>&1
rc=$?
grep -E "VIOLATION|KNOWN-FINDING|HARNESS|violation class|runs \(|executions \(" $SCR/out.txt | cut -c1-220 | head -10
echo "check exit=$rc"
