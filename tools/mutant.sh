#!/bin/bash
# tools/mutant.sh <patch> <ID> [budget-secs] [extra check args]
# Apply a seeded change to /repo, run the check (evidence and replays go to a scratch verif dir),
# then restore /repo. Prints the tail of the check output.
PATCH="$1"; ID="$2"; B="${3:-30}"; shift 3 || shift 2
SCR=/dev/shm/mutverif; rm -rf $SCR; mkdir -p $SCR
cp /verif/known_findings.json $SCR/ 2>/dev/null
cd /repo || exit 2
git diff --quiet || { echo "repo dirty, refusing"; exit 2; }
git apply "$PATCH" || { echo "patch does not apply"; exit 2; }
trap 'git -C /repo checkout -- . ' EXIT
cd /verif
timeout 1500 ./check "$ID" --budget-secs "$B" --verif-dir $SCR "$@" 2>&1 | tail -12
echo "check exit=${PIPESTATUS[0]}"
