//! A crate named `loom` that hands parity-db's `feature = "loom"` shim shuttle's primitives:
//! every Mutex / RwLock / Condvar operation of parity-db becomes a shuttle scheduling point.
pub mod sync {
	pub use shuttle::sync::*;
}
pub mod thread {
	pub use shuttle::thread::*;
}
