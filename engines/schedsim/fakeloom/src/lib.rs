//! A crate named `loom` that hands parity-db's `feature = "loom"` shim shuttle's primitives:
//! every Mutex / RwLock / Condvar operation of parity-db becomes a shuttle scheduling point.
//!
//! `Mutex` and `RwLock` are thin wrappers whose acquire operations are also *stall points*: the
//! scenario may plan, per execution, that one thread (by role) is descheduled for a long time at
//! its n-th acquire (fault kind "stalled thread"; see `stall`).
pub mod sync {
	pub use shuttle::sync::*;

	#[derive(Debug, Default)]
	pub struct Mutex<T>(shuttle::sync::Mutex<T>);

	impl<T> Mutex<T> {
		pub fn new(val: T) -> Self {
			Self(shuttle::sync::Mutex::new(val))
		}
		pub fn lock(&self) -> LockResult<MutexGuard<'_, T>> {
			crate::stall::point();
			self.0.lock()
		}
		pub fn try_lock(&self) -> TryLockResult<MutexGuard<'_, T>> {
			self.0.try_lock()
		}
	}

	#[derive(Debug, Default)]
	pub struct RwLock<T>(shuttle::sync::RwLock<T>);

	impl<T> RwLock<T> {
		pub fn new(val: T) -> Self {
			Self(shuttle::sync::RwLock::new(val))
		}
		pub fn read(&self) -> LockResult<RwLockReadGuard<'_, T>> {
			crate::stall::point();
			self.0.read()
		}
		pub fn write(&self) -> LockResult<RwLockWriteGuard<'_, T>> {
			crate::stall::point();
			self.0.write()
		}
		pub fn try_write(&self) -> TryLockResult<RwLockWriteGuard<'_, T>> {
			self.0.try_write()
		}
		pub fn try_read(&self) -> TryLockResult<RwLockReadGuard<'_, T>> {
			self.0.try_read()
		}
	}
}
pub mod thread {
	pub use shuttle::thread::*;
}

/// Stalled-thread fault: at its `at`-th lock acquire the thread with role `role` yields `len`
/// times in a row (under PCT a yield also drops it to the lowest priority), so that every other
/// thread can run far ahead while it sits in the middle of whatever it was doing.
pub mod stall {
	use std::cell::Cell;
	use std::sync::atomic::{AtomicU32, AtomicU64, Ordering};

	static ROLE: AtomicU32 = AtomicU32::new(u32::MAX);
	static AT: AtomicU32 = AtomicU32::new(0);
	static LEN: AtomicU32 = AtomicU32::new(0);
	pub static FIRED: AtomicU64 = AtomicU64::new(0);

	shuttle::thread_local! {
		static MY_ROLE: Cell<u32> = Cell::new(u32::MAX);
		static COUNT: Cell<u32> = Cell::new(0);
	}

	pub fn set_role(r: u32) {
		MY_ROLE.with(|c| c.set(r));
	}

	pub fn plan(role: u32, at: u32, len: u32) {
		AT.store(at, Ordering::Relaxed);
		LEN.store(len, Ordering::Relaxed);
		ROLE.store(role, Ordering::Relaxed);
	}

	pub fn clear() {
		ROLE.store(u32::MAX, Ordering::Relaxed);
	}

	#[inline]
	pub fn point() {
		let role = ROLE.load(Ordering::Relaxed);
		if role == u32::MAX || std::thread::panicking() {
			return
		}
		let mine = MY_ROLE.with(|c| c.get());
		if mine != role {
			return
		}
		let n = COUNT.with(|c| {
			c.set(c.get() + 1);
			c.get()
		});
		if n == AT.load(Ordering::Relaxed) {
			FIRED.fetch_add(1, Ordering::Relaxed);
			for _ in 0..LEN.load(Ordering::Relaxed) {
				shuttle::thread::yield_now();
			}
		}
	}
}
