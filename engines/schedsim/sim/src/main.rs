//! schedsim — thread-schedule simulator for parity-db on shuttle.
//!
//! parity-db is built with its own `loom` feature against a crate named `loom` that re-exports
//! shuttle's primitives, so every lock / condvar operation of the database is a scheduling
//! point decided by a seeded scheduler (Random, PCT). The four real worker loops run as shuttle
//! threads through the cfg-gated `verif_run_worker` hook.

mod order;
mod scenarios;

use serde_json::{json, Value as J};
use shuttle::scheduler::{PctScheduler, RandomScheduler, ReplayScheduler};
use shuttle::{Config, FailurePersistence, MaxSteps, Runner};
use std::collections::BTreeMap;
use std::sync::atomic::{AtomicU64, Ordering};
use std::sync::Mutex;
use std::time::Instant;

pub static EXECUTIONS: AtomicU64 = AtomicU64::new(0);
pub static STEPS_HINT: AtomicU64 = AtomicU64::new(0);
pub static PROBES: Mutex<BTreeMap<&'static str, u64>> = Mutex::new(BTreeMap::new());
pub static LAST_PANIC: Mutex<String> = Mutex::new(String::new());

pub fn probe(name: &'static str) {
	if let Ok(mut p) = PROBES.lock() {
		*p.entry(name).or_insert(0) += 1;
	}
}

fn arg<'a>(args: &'a [String], name: &str) -> Option<&'a str> {
	args.iter().position(|a| a == name).and_then(|i| args.get(i + 1)).map(|s| s.as_str())
}

fn scratch() -> String {
	format!("/dev/shm/pdbsched/{}", std::process::id())
}

pub fn fresh_dir() -> String {
	let n = EXECUTIONS.fetch_add(1, Ordering::Relaxed);
	let d = format!("{}/x{}", scratch(), n % 4);
	let _ = std::fs::remove_dir_all(&d);
	d
}

fn scenario_for(prop: &str) -> &'static str {
	match prop {
		"C05" => "vis",
		"C04" => "iter",
		"C16" => "ioerr",
		"C15" => "live",
		"C18" => "lock",
		"C03" => "drop",
		"C11" => "treelock",
		"C12" => "order",
		_ => "vis",
	}
}

fn mix(mut z: u64) -> u64 {
	z = (z ^ (z >> 30)).wrapping_mul(0xBF58_476D_1CE4_E5B9);
	z = (z ^ (z >> 27)).wrapping_mul(0x94D0_49BB_1331_11EB);
	z ^ (z >> 31)
}

fn config(persist_dir: &str, max_steps: usize) -> Config {
	let mut c = Config::new();
	c.stack_size = 4 << 20;
	c.failure_persistence = FailurePersistence::File(Some(persist_dir.into()));
	c.max_steps = MaxSteps::FailAfter(max_steps);
	c.silence_warnings = true;
	c
}

fn max_steps_for(scenario: &str) -> usize {
	match scenario {
		"lock" => 200_000,
		_ => 3_000_000,
	}
}

fn panic_text(p: &Box<dyn std::any::Any + Send>) -> String {
	if let Some(s) = p.downcast_ref::<&str>() {
		s.to_string()
	} else if let Some(s) = p.downcast_ref::<String>() {
		s.clone()
	} else {
		"panic".into()
	}
}

/// Classify a failure message.
fn classify(msg: &str) -> (&'static str, String) {
	// messages raised by the scenarios start with "VIOL <prop> <class>:"
	if let Some(rest) = msg.strip_prefix("VIOL ") {
		let mut it = rest.splitn(3, ' ');
		let prop = it.next().unwrap_or("");
		let class = it.next().unwrap_or("").trim_end_matches(':').to_string();
		let prop: &'static str = match prop {
			"C03" => "C03",
			"C04" => "C04",
			"C16" => "C16",
			"C05" => "C05",
			"C12" => "C12",
			"C11" => "C11",
			"C15" => "C15",
			"C18" => "C18",
			_ => "C15",
		};
		return (prop, class)
	}
	if msg.contains("deadlock") {
		return ("C15", "deadlock".into())
	}
	if msg.contains("exceeded max_steps") || msg.contains("max_steps") {
		return ("C15", "no-progress-within-step-bound".into())
	}
	("C15", "panic".into())
}

// Seeded getrandom for the thread that runs the executions: std's per-thread RandomState keys
// (HashMap iteration order inside parity-db) are then the same in every process, which exact
// replay of a schedule needs. Every execution runs on a fresh OS thread for the same reason.
static RAND_OWNER: std::sync::atomic::AtomicI64 = std::sync::atomic::AtomicI64::new(0);
static mut RAND_STATE: u64 = 0;

#[no_mangle]
pub unsafe extern "C" fn getrandom(buf: *mut libc::c_void, len: libc::size_t, flags: libc::c_uint) -> libc::ssize_t {
	let tid = libc::syscall(libc::SYS_gettid) as i64;
	if RAND_OWNER.load(Ordering::Relaxed) == tid {
		let s = std::slice::from_raw_parts_mut(buf as *mut u8, len);
		for c in s.chunks_mut(8) {
			RAND_STATE = RAND_STATE.wrapping_add(0x9E37_79B9_7F4A_7C15);
			let v = mix(RAND_STATE).to_le_bytes();
			c.copy_from_slice(&v[..c.len()]);
		}
		return len as libc::ssize_t
	}
	libc::syscall(libc::SYS_getrandom, buf, len, flags) as libc::ssize_t
}

/// Run `f` on a fresh OS thread with the seeded getrandom stream.
pub fn on_fresh_thread<R: Send + 'static>(f: impl FnOnce() -> R + Send + 'static) -> std::thread::Result<R> {
	std::thread::Builder::new()
		.stack_size(16 << 20)
		.spawn(move || {
			unsafe {
				RAND_STATE = 0x5EED_5EED;
			}
			RAND_OWNER.store(unsafe { libc::syscall(libc::SYS_gettid) } as i64, Ordering::SeqCst);
			let r = std::panic::catch_unwind(std::panic::AssertUnwindSafe(f));
			RAND_OWNER.store(0, Ordering::SeqCst);
			r
		})
		.expect("spawn")
		.join()
		.expect("join")
}

fn run_batch(scenario: &'static str, sched: &str, seed: u64, iters: usize, persist: &str) -> Result<(), (String, Option<String>)> {
	let _ = std::fs::create_dir_all(persist);
	let before: Vec<String> = std::fs::read_dir(persist)
		.map(|rd| rd.filter_map(|e| e.ok()).filter_map(|e| e.file_name().into_string().ok()).collect())
		.unwrap_or_default();
	let mut r: std::thread::Result<()> = Ok(());
	for i in 0..iters {
		let cfg = config(persist, max_steps_for(scenario));
		let body = move || scenarios::run(scenario);
		let sched = sched.to_string();
		let s = mix(seed ^ mix(i as u64 + 1));
		r = on_fresh_thread(move || {
			if let Some(d) = sched.strip_prefix("pct") {
				let depth: usize = d.parse().unwrap_or(3);
				Runner::new(PctScheduler::new_from_seed(s, depth, 1), cfg).run(body);
			} else {
				Runner::new(RandomScheduler::new_from_seed(s, 1), cfg).run(body);
			}
		});
		if r.is_err() {
			break
		}
	}
	match r {
		Ok(()) => Ok(()),
		Err(p) => {
			let msg = panic_text(&p);
			let after: Vec<String> = std::fs::read_dir(persist)
				.map(|rd| rd.filter_map(|e| e.ok()).filter_map(|e| e.file_name().into_string().ok()).collect())
				.unwrap_or_default();
			let new = after.into_iter().find(|f| !before.contains(f)).map(|f| format!("{persist}/{f}"));
			Err((msg, new))
		},
	}
}

fn worker(args: &[String]) -> i32 {
	let prop = arg(args, "--prop").unwrap_or("C05").to_string();
	let scenario: &'static str = match arg(args, "--scenario") {
		Some(s) => Box::leak(s.to_string().into_boxed_str()),
		None => scenario_for(&prop),
	};
	let seed: u64 = arg(args, "--seed").and_then(|s| s.parse().ok()).unwrap_or(1);
	let index: u64 = arg(args, "--index").and_then(|s| s.parse().ok()).unwrap_or(0);
	let budget: f64 = arg(args, "--budget-secs").and_then(|s| s.parse().ok()).unwrap_or(10.0);
	let out = arg(args, "--out").unwrap_or("/dev/stdout").to_string();
	let persist = arg(args, "--persist").map(|s| s.to_string()).unwrap_or_else(|| format!("{}/sched", scratch()));
	let start = Instant::now();
	let mut batches = 0u64;
	let mut violations: Vec<J> = Vec::new();
	let mut by_sched: BTreeMap<String, u64> = BTreeMap::new();
	let iters = 60usize;
	while start.elapsed().as_secs_f64() < budget {
		let bseed = mix(seed ^ mix(index.wrapping_mul(0x9E37) ^ (batches << 16)));
		// portfolio: random and PCT depths 1..5
		// The deferral of a commit that dereferences a held tree is a busy loop in the log worker:
		// only a (probabilistically) fair scheduler makes progress there, so PCT is not used.
		let sched = if scenario == "treelock" {
			"random".to_string()
		} else {
			match batches % 6 {
				0 | 1 => "random".to_string(),
				k => format!("pct{}", k - 1),
			}
		};
		batches += 1;
		let before = EXECUTIONS.load(Ordering::Relaxed);
		let r = run_batch(scenario, &sched, bseed, iters, &persist);
		*by_sched.entry(sched.clone()).or_insert(0) += EXECUTIONS.load(Ordering::Relaxed) - before;
		if let Err((msg, file)) = r {
			let (p, class) = classify(&msg);
			if violations.len() < 6 {
				let schedule = file.as_ref().and_then(|f| std::fs::read_to_string(f).ok()).unwrap_or_default();
				violations.push(json!({
					"property": p, "class": class, "detail": msg.chars().take(600).collect::<String>(),
					"scheduler": sched, "batch_seed": bseed.to_string(), "schedule": schedule,
				}));
			}
		}
	}
	let probes: BTreeMap<String, u64> = PROBES.lock().map(|p| p.iter().map(|(k, v)| (k.to_string(), *v)).collect()).unwrap_or_default();
	let res = json!({
		"executions": EXECUTIONS.load(Ordering::Relaxed),
		"batches": batches,
		"by_scheduler": by_sched,
		"probes": probes,
		"violations": violations,
		"samples": scenarios::take_samples(),
		"distinct": scenarios::distinct_histories(),
		"steps": STEPS_HINT.load(Ordering::Relaxed),
	});
	let _ = std::fs::write(&out, res.to_string());
	let _ = std::fs::remove_dir_all(scratch());
	0
}

fn cmd_replay(args: &[String]) -> i32 {
	let Some(path) = arg(args, "--file") else { return 2 };
	let Ok(s) = std::fs::read_to_string(path) else {
		eprintln!("cannot read {path}");
		return 2
	};
	let Ok(j) = serde_json::from_str::<J>(&s) else { return 2 };
	let scenario: &'static str = Box::leak(j["scenario"].as_str().unwrap_or("vis").to_string().into_boxed_str());
	let schedule = j["schedule"].as_str().unwrap_or("").to_string();
	let prop = j["violation"]["property"].as_str().unwrap_or("").to_string();
	let want_class = j["violation"]["class"].as_str().unwrap_or("").to_string();
	let r = on_fresh_thread(move || {
		let mut cfg = config("/dev/null", max_steps_for(scenario));
		cfg.failure_persistence = FailurePersistence::None;
		Runner::new(ReplayScheduler::new_from_encoded(&schedule), cfg).run(move || scenarios::run(scenario));
	});
	let _ = std::fs::remove_dir_all(scratch());
	match r {
		Ok(()) => {
			println!("replay did not reproduce {prop}/{want_class}");
			0
		},
		Err(p) => {
			let msg = panic_text(&p);
			let (gp, gc) = classify(&msg);
			println!("replayed: {gp} {gc}: {}", msg.chars().take(300).collect::<String>());
			if gp == prop {
				println!("VIOLATION property={prop} replay={path}");
				1
			} else {
				0
			}
		},
	}
}

struct Known {
	property: String,
	class_prefix: String,
	class: String,
	needles: Vec<String>,
	what: String,
	status: String,
}

fn load_known(path: &str) -> Vec<Known> {
	let Ok(s) = std::fs::read_to_string(path) else { return Vec::new() };
	let Ok(j) = serde_json::from_str::<J>(&s) else { return Vec::new() };
	j["findings"]
		.as_array()
		.map(|a| {
			a.iter()
				.map(|f| Known {
					property: f["property"].as_str().unwrap_or("").to_string(),
					class_prefix: f["signature"]["class_prefix"].as_str().unwrap_or("").to_string(),
					class: f["signature"]["class"].as_str().unwrap_or("").to_string(),
					needles: f["signature"]["detail_contains"]
						.as_array()
						.map(|a| a.iter().filter_map(|x| x.as_str().map(|s| s.to_string())).collect())
						.unwrap_or_default(),
					what: f["what"].as_str().unwrap_or("").to_string(),
					status: f["status"].as_str().unwrap_or("known").to_string(),
				})
				.collect()
		})
		.unwrap_or_default()
}

fn cmd_check(args: &[String]) -> i32 {
	let prop = arg(args, "--prop").unwrap_or("C05").to_string();
	let scenario = arg(args, "--scenario").map(|s| s.to_string()).unwrap_or_else(|| scenario_for(&prop).to_string());
	let tier = std::env::var("VERIF_TIER").ok().or_else(|| arg(args, "--tier").map(|s| s.to_string())).unwrap_or("quick".into());
	let tier = if tier == "thorough" { "thorough" } else { "quick" };
	let seed: u64 = std::env::var("VERIF_SEED").ok().and_then(|s| s.parse().ok()).or_else(|| arg(args, "--seed").and_then(|s| s.parse().ok())).unwrap_or(1);
	let workers: u64 = arg(args, "--workers").and_then(|s| s.parse().ok()).unwrap_or(16);
	let budget: f64 = arg(args, "--budget-secs").and_then(|s| s.parse().ok()).unwrap_or(if tier == "quick" { 40.0 } else { 600.0 });
	let verif_dir = arg(args, "--verif-dir").unwrap_or("/verif").to_string();
	let part_only = args.iter().any(|a| a == "--no-evidence");
	let start = Instant::now();
	println!("schedsim check property={prop} scenario={scenario} tier={tier} VERIF_SEED={seed} workers={workers} budget={budget}s");
	let exe = std::env::current_exe().unwrap();
	let dir = format!("{}/check", scratch());
	let _ = std::fs::create_dir_all(&dir);
	let mut children = Vec::new();
	for w in 0..workers {
		let out = format!("{dir}/w{w}.json");
		let c = std::process::Command::new(&exe)
			.args([
				"worker", "--prop", &prop, "--scenario", &scenario, "--seed", &seed.to_string(), "--index", &w.to_string(),
				"--budget-secs", &budget.to_string(), "--out", &out, "--persist", &format!("{dir}/sched{w}"),
			])
			.stdout(std::process::Stdio::null())
			.stderr(std::process::Stdio::null())
			.spawn();
		match c {
			Ok(c) => children.push((c, out, w)),
			Err(e) => {
				println!("HARNESS-ERROR cannot spawn worker: {e}");
				return 2
			},
		}
	}
	let mut merged = Vec::new();
	let mut harness_errors: Vec<String> = Vec::new();
	for (mut c, out, w) in children {
		match c.wait() {
			Ok(s) if s.success() => {},
			Ok(s) => harness_errors.push(format!("worker {w} exited with {s}")),
			Err(e) => harness_errors.push(format!("worker {w}: {e}")),
		}
		match std::fs::read_to_string(&out).ok().and_then(|s| serde_json::from_str::<J>(&s).ok()) {
			Some(j) => merged.push(j),
			None => harness_errors.push(format!("worker {w} produced no result")),
		}
	}
	let sum = |k: &str| -> u64 { merged.iter().map(|j| j[k].as_u64().unwrap_or(0)).sum() };
	let mut probes: BTreeMap<String, u64> = BTreeMap::new();
	let mut by_sched: BTreeMap<String, u64> = BTreeMap::new();
	let mut samples: Vec<J> = Vec::new();
	let mut viols: Vec<J> = Vec::new();
	for j in &merged {
		if let Some(o) = j["probes"].as_object() {
			for (k, v) in o {
				*probes.entry(k.clone()).or_insert(0) += v.as_u64().unwrap_or(0);
			}
		}
		if let Some(o) = j["by_scheduler"].as_object() {
			for (k, v) in o {
				*by_sched.entry(k.clone()).or_insert(0) += v.as_u64().unwrap_or(0);
			}
		}
		for s in j["samples"].as_array().unwrap_or(&Vec::new()) {
			if samples.len() < 3 {
				samples.push(s.clone());
			}
		}
		for v in j["violations"].as_array().unwrap_or(&Vec::new()) {
			viols.push(v.clone());
		}
	}
	let known = load_known(&format!("{verif_dir}/known_findings.json"));
	let mut exit = 0;
	let mut reported: Vec<J> = Vec::new();
	let mut known_lines: Vec<String> = Vec::new();
	let mut cross: BTreeMap<String, u64> = BTreeMap::new();
	let mut seen: std::collections::HashSet<String> = Default::default();
	for v in &viols {
		let vp = v["property"].as_str().unwrap_or("").to_string();
		let vc = v["class"].as_str().unwrap_or("").to_string();
		let detail = v["detail"].as_str().unwrap_or("").to_string();
		if vp != prop {
			*cross.entry(format!("{vp}/{vc}")).or_insert(0) += 1;
			continue
		}
		if let Some(k) = known.iter().find(|k| {
			k.status == "known" &&
				k.property == vp &&
				(if k.class_prefix.is_empty() { k.class == vc } else { vc.starts_with(k.class_prefix.as_str()) }) &&
				k.needles.iter().all(|n| detail.contains(n.as_str()))
		}) {
			let l = format!("KNOWN-FINDING: property={} {}", k.property, k.what);
			if !known_lines.contains(&l) {
				known_lines.push(l);
			}
			continue
		}
		if !seen.insert(vc.clone()) || reported.len() >= 4 {
			continue
		}
		// replay in this fresh process; must fail the same way
		let schedule = v["schedule"].as_str().unwrap_or("").to_string();
		let sc: &'static str = Box::leak(scenario.clone().into_boxed_str());
		let s2 = schedule.clone();
		let r = on_fresh_thread(move || {
			let mut cfg = config("/dev/null", max_steps_for(sc));
			cfg.failure_persistence = FailurePersistence::None;
			Runner::new(ReplayScheduler::new_from_encoded(&s2), cfg).run(move || scenarios::run(sc));
		});
		let reproduced = match &r {
			Err(p) => classify(&panic_text(p)).0 == vp,
			Ok(()) => false,
		};
		if !reproduced {
			harness_errors.push(format!("violation {vp}/{vc} did not replay from its schedule"));
			continue
		}
		let rdir = format!("{verif_dir}/replays/{prop}");
		let _ = std::fs::create_dir_all(&rdir);
		let rj = json!({
			"engine": "schedsim", "scenario": scenario, "tier": tier,
			"scheduler": v["scheduler"], "batch_seed": v["batch_seed"],
			"schedule": schedule,
			"violation": {"property": vp, "class": vc, "detail": detail},
			"note": "workload parameters are drawn from shuttle::rand inside the execution, so the schedule string replays the workload as well",
		});
		let h = mix(schedule.len() as u64 ^ mix(detail.len() as u64));
		let rpath = format!("{rdir}/{}-{:08x}.json", v["batch_seed"].as_str().unwrap_or("0"), h as u32);
		let _ = std::fs::write(&rpath, serde_json::to_string_pretty(&rj).unwrap());
		println!("violation class={vc}: {}", detail.chars().take(400).collect::<String>());
		println!("VIOLATION property={prop} replay={rpath}");
		reported.push(json!({"class": vc, "detail": detail, "replay": rpath}));
		exit = 1;
	}
	for l in &known_lines {
		println!("{l}");
	}
	let execs = sum("executions");
	let wall = start.elapsed().as_secs_f64();
	let distinct: u64 = sum("distinct");
	let ev = json!({
		"property_id": prop, "tier": tier, "seed": seed, "level": "exploration",
		"coverage": {
			"evaluations": std::cmp::max(execs, 1),
			"distinct_nontrivial": distinct,
			"rule": "one evaluation = one shuttle execution (workload drawn from shuttle::rand + one complete schedule of client threads and the four real worker loops); distinct = different hash of the recorded operation history (operations with their invoke/return event stamps, i.e. the observed interleaving at operation granularity), counted per worker process and summed; non-trivial = at least one commit was processed by the log worker while a client operation was in flight (the history contains a client event between the commit's start and the drain)",
			"samples": samples,
			"exhaustive": false,
			"runs_per_hour": if wall > 0.0 { (execs as f64 / wall * 3600.0) as u64 } else { 0 },
			"executions_by_scheduler": by_sched,
			"simulated_time": {"note": "no clock in parity-db; shuttle scheduling steps are the time unit", "client_and_worker_events": sum("steps")},
			"probes": probes,
			"faults_fired": {
				"stalled_thread (one thread descheduled for 30-4000 switch points at one of its lock acquisitions)": probes.get("stall_fired").cloned().unwrap_or(0),
				"worker_failure_injected (store_err at a scheduler-chosen moment)": probes.get("worker_failure_injected").cloned().unwrap_or(0),
				"commit_throttled_queue_full": probes.get("commit_throttled_queue_full").cloned().unwrap_or(0),
				"file_operation_failures_armed (ioerr: the n-th file operation of any thread and all later ones fail, parity-db's try_io counter)": probes.get("io_fault_armed").cloned().unwrap_or(0),
				"worker_stopped_with_io_error": probes.get("worker_stopped_with_io_error").cloned().unwrap_or(0),
				"commit_refused_after_io_failure": probes.get("commit_refused_after_io_failure").cloned().unwrap_or(0),
				"read_failed_after_io_failure": probes.get("read_failed_after_io_failure").cloned().unwrap_or(0),
				"note": "no crash or power-loss faults in this engine; the schedule itself (which thread runs at every lock / condvar operation) is the main fault space. Verification builds use lowered queue limits (hook H4: 128 KiB of queued commits, 1 MiB of logged unapplied bytes; log rotation at 512 KiB when logs are not always flushed)",
			},
			"cross_property_observations": cross,
			"known_findings_matched": known_lines,
			"violations_reported": reported,
			"harness_errors": harness_errors,
			"real_vs_stub": {
				"real": "every line of parity-db incl. the four worker loops, wait/signal protocol, throttling, store_err/shutdown path, real files on tmpfs",
				"stub": "parking_lot primitives -> shuttle's (Mutex and Condvar through the crate's own loom shim; RwLock through the verification shim of hook H5, in which an upgradable read coexists with readers as in parking_lot - the crate's own shim maps it to a write lock; guard projections copy), std::thread::spawn of the workers -> harness-spawned shuttle threads running the same worker functions; std atomics are not scheduling points",
			},
		},
		"assumptions": [
			"context switches happen only at lock/condvar operations (and explicit yields of the scenario); races between plain atomic accesses with no lock in between are out of reach",
			"sampling of schedules (Random + PCT depth 1..4 portfolio), not enumeration",
		],
		"wall_s": wall,
		"violations": reported.len(),
	});
	if !part_only {
		let _ = std::fs::create_dir_all(format!("{verif_dir}/evidence"));
		if std::fs::write(format!("{verif_dir}/evidence/{prop}.json"), serde_json::to_string_pretty(&ev).unwrap()).is_err() {
			println!("HARNESS-ERROR cannot write evidence");
			return 2
		}
	} else {
		let pf = arg(args, "--part-file").unwrap_or("/dev/null").to_string();
		let _ = std::fs::write(pf, ev.to_string());
	}
	let _ = std::fs::remove_dir_all(scratch());
	println!("{execs} executions ({distinct} distinct histories), {:.1}s", wall);
	if !harness_errors.is_empty() {
		for e in harness_errors.iter().take(8) {
			println!("HARNESS-ERROR {e}");
		}
		if exit == 0 {
			return 2
		}
	}
	if execs == 0 {
		println!("HARNESS-ERROR no executions");
		return 2
	}
	exit
}

struct ProbeLogger;
impl log::Log for ProbeLogger {
	fn enabled(&self, m: &log::Metadata) -> bool {
		m.level() <= log::Level::Debug
	}
	fn log(&self, record: &log::Record) {
		// reach probes only; never read by an oracle
		if let Some(s) = record.args().as_str() {
			let _ = s;
		}
		let t = format!("{}", record.args());
		if std::env::var("SCHEDSIM_VERBOSE").is_ok() {
			eprintln!("[pdb] {t}");
		}
		order::line(&t);
		if t.starts_with("Deferred commit") {
			probe("commit_deferred");
		} else if t.starts_with("Waiting, queue size") {
			probe("commit_throttled_queue_full");
		} else if t.starts_with("Waiting for log cleanup") {
			probe("enact_waited_for_cleanup");
		} else if t.starts_with("Started reindex") {
			probe("reindex_started");
		}
	}
	fn flush(&self) {}
}
static PROBE_LOGGER: ProbeLogger = ProbeLogger;

fn main() {
	let _ = log::set_logger(&PROBE_LOGGER);
	log::set_max_level(log::LevelFilter::Debug);
	std::panic::set_hook(Box::new(|info| {
		let loc = info.location().map(|l| format!("{}:{}", l.file(), l.line())).unwrap_or_default();
		if let Ok(mut s) = LAST_PANIC.lock() {
			*s = loc;
		}
		if std::env::var("SCHEDSIM_BT").is_ok() {
			eprintln!("PANIC {info}\n{}", std::backtrace::Backtrace::force_capture());
		}
	}));
	parity_db::verif::EXTERNAL_WORKERS.store(true, Ordering::SeqCst);
	parity_db::verif::set_yield_hook(Some(order::hook));
	let args: Vec<String> = std::env::args().collect();
	let code = match args.get(1).map(|s| s.as_str()) {
		Some("worker") => worker(&args),
		Some("check") => cmd_check(&args),
		Some("replay") => cmd_replay(&args),
		_ => {
			eprintln!("usage: schedsim worker|check|replay");
			2
		},
	};
	std::process::exit(code);
}
