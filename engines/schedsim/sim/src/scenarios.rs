//! Scenarios executed under shuttle. Everything random is drawn from shuttle::rand so that a
//! schedule string replays the workload as well.

use crate::{fresh_dir, probe};
use parity_db::{ColumnOptions, Db, Error, Options};
use serde_json::{json, Value as J};
use shuttle::rand::Rng;
use shuttle::sync::{Arc, Mutex};
use shuttle::thread;
use std::collections::{BTreeMap, HashSet};
use std::sync::atomic::{AtomicU64, AtomicUsize, Ordering};

static SAMPLES: std::sync::Mutex<Vec<J>> = std::sync::Mutex::new(Vec::new());
static HISTORIES: std::sync::Mutex<Option<HashSet<u64>>> = std::sync::Mutex::new(None);

pub fn take_samples() -> Vec<J> {
	SAMPLES.lock().map(|s| s.clone()).unwrap_or_default()
}

pub fn distinct_histories() -> u64 {
	HISTORIES.lock().map(|h| h.as_ref().map_or(0, |s| s.len() as u64)).unwrap_or(0)
}

fn note_history(h: u64, sample: impl FnOnce() -> J) {
	if let Ok(mut g) = HISTORIES.lock() {
		let set = g.get_or_insert_with(HashSet::new);
		if set.len() < 2_000_000 {
			set.insert(h);
		}
	}
	if let Ok(mut s) = SAMPLES.lock() {
		if s.len() < 3 {
			s.push(sample());
		}
	}
}

fn fnv(mut h: u64, b: &[u8]) -> u64 {
	if h == 0 {
		h = 0xcbf2_9ce4_8422_2325;
	}
	for x in b {
		h ^= *x as u64;
		h = h.wrapping_mul(0x0000_0100_0000_01B3);
	}
	h
}

pub fn run(scenario: &'static str) {
	match scenario {
		"vis" =>
			if shuttle::rand::thread_rng().gen_ratio(2, 5) {
				visx(false, false)
			} else {
				pipe(Mode::Vis)
			},
		"iter" => visx(true, false),
		"ioerr" => ioerr_threads(),
		"live" =>
			if shuttle::rand::thread_rng().gen_ratio(1, 4) {
				visx(false, true)
			} else {
				pipe(Mode::Live)
			},
		"drop" => pipe(Mode::Drop),
		"order" => pipe(Mode::Order),
		"lock" => lock_scenario(),
		"treelock" => treelock(),
		_ => pipe(Mode::Vis),
	}
}

#[derive(Clone, Copy, PartialEq, Eq, Debug)]
enum Mode {
	Vis,
	Live,
	Drop,
	/// Like Live, with the default syncing options and one log file per record: the ordering
	/// clause of C12 (tables flushed before a log is reclaimed) under thread interleavings.
	Order,
}

/// Size at which the flush worker rotates the log file when logs are not always flushed. Production:
/// 64 MiB against a limit of 128 MiB of logged, unapplied bytes; the verification build's limit is
/// 1 MiB (hook H4), and the rotation size keeps the same ratio.
const MIN_LOG: u64 = 512 * 1024;

const VALUE_LENS: [usize; 8] = [9, 20, 30, 33, 60, 200, 1000, 5000];

/// value = [tx index: 4][key index: 1][filler...]
fn make_value(tx: u32, key: u8, len: usize) -> Vec<u8> {
	let mut v = vec![0u8; len.max(5)];
	v[..4].copy_from_slice(&tx.to_le_bytes());
	v[4] = key;
	for (i, b) in v.iter_mut().enumerate().skip(5) {
		*b = (tx as usize * 31 + i) as u8;
	}
	v
}

fn decode_value(v: &[u8], key: u8) -> Result<u32, String> {
	if v.len() < 5 {
		return Err(format!("value of {} bytes is too short", v.len()))
	}
	let tx = u32::from_le_bytes(v[..4].try_into().unwrap());
	if v[4] != key {
		return Err(format!("value belongs to key {} not {}", v[4], key))
	}
	for (i, b) in v.iter().enumerate().skip(5) {
		if *b != (tx as usize * 31 + i) as u8 {
			return Err(format!("value of tx {tx} is corrupted at byte {i}"))
		}
	}
	Ok(tx)
}

fn key_bytes(kind: u8, k: u8) -> Vec<u8> {
	match kind {
		// uniform column with zero salt: identity hash, exactly 32 bytes; all keys share the
		// first two bytes (one index page)
		2 => {
			let mut key = vec![0xABu8; 32];
			// a low page number: an index rebuild collects this page early in its scan and stays
			// in flight while it walks the rest of the index
			key[0] = 0;
			key[1] = 3;
			key[2] = k.wrapping_mul(37);
			key[3] = k;
			key[31] = k;
			key
		},
		_ => vec![b'k', k],
	}
}

struct Hist {
	/// per tx (1-based): (start stamp, end stamp, keys written)
	txs: Vec<(u64, u64, Vec<u8>)>,
}

fn pipe(mode: Mode) {
	let dir = fresh_dir();
	let mut rng = shuttle::rand::thread_rng();
	let col_kind: u8 = rng.gen_range(0..3); // 0 hash, 1 btree, 2 uniform zero-salt
	let always_flush = mode == Mode::Order || rng.gen_bool(0.7);
	let nkeys: u8 = rng.gen_range(2..6);
	let ntx: u32 = match mode {
		Mode::Vis => rng.gen_range(2..9),
		_ => rng.gen_range(1..14),
	};
	let nreaders: usize = match mode {
		Mode::Vis => rng.gen_range(1..4),
		Mode::Live | Mode::Order => rng.gen_range(0..2),
		Mode::Drop => 0,
	};
	// index growth under concurrent reads: one transaction also writes 66 filler keys of the same
	// index page, so that the page overflows and the log worker rebuilds the index while readers
	// (which then read for much longer, with pauses) are active
	let growth = col_kind == 2 && rng.gen_ratio(1, 3);
	const FILL0: u8 = 100;
	const NFILL: u8 = 66;
	let reads_per: usize = if growth { rng.gen_range(20..90) } else { rng.gen_range(2..12) };
	let sync = mode == Mode::Order || rng.gen_bool(0.5);
	// the ordering monitor listens in every mode that syncs its tables
	crate::order::arm(sync);
	// stalled-thread fault: one thread (a worker, the committer or a reader) is descheduled for a
	// long time at one of its lock acquisitions
	loom::stall::clear();
	if rng.gen_bool(0.5) {
		// in the visibility scenario a reader paused in the middle of a lookup is the interesting stall
		let role = if mode == Mode::Vis && rng.gen_bool(0.4) { 5 } else { rng.gen_range(0..6u32) };
		// a reader makes few lock acquisitions in all: pause it at one of them, and for long
		let at = if role == 5 { rng.gen_range(1..90u32) } else if rng.gen_bool(0.5) { rng.gen_range(1..60u32) } else { rng.gen_range(1..600u32) };
		let len = if role == 5 { *[1000u32, 4000].get(rng.gen_range(0..2usize)).unwrap() } else { *[30u32, 200, 1000, 4000].get(rng.gen_range(0..4usize)).unwrap() };
		loom::stall::plan(role, at, len);
		probe("stall_planned");
	}
	let mut o = Options::with_columns(std::path::Path::new(&dir), 1);
	o.columns[0] = ColumnOptions { btree_index: col_kind == 1, uniform: col_kind == 2, ..Default::default() };
	o.salt = Some(if col_kind == 2 { [0u8; 32] } else { [7u8; 32] });
	o.sync_wal = sync;
	o.sync_data = sync;
	o.stats = false;
	o.with_background_thread = false;
	o.always_flush = always_flush;
	let db = match Db::open_or_create(&o) {
		Ok(db) => Arc::new(db),
		Err(e) => panic!("VIOL C15 open-failed: {e}"),
	};
	let min_log: u64 = if always_flush { 0 } else { MIN_LOG };
	let stamp = Arc::new(AtomicU64::new(1));
	let hist = Arc::new(Mutex::new(Hist { txs: Vec::new() }));
	// plan transactions up front (deterministic from shuttle::rand)
	let mut plan: Vec<Vec<(u8, usize)>> = Vec::new();
	for _ in 0..ntx {
		let n = rng.gen_range(1..=std::cmp::min(4, nkeys as usize));
		let mut keys: Vec<u8> = (0..nkeys).collect();
		let mut tx = Vec::new();
		for _ in 0..n {
			let i = rng.gen_range(0..keys.len());
			let k = keys.remove(i);
			tx.push((k, VALUE_LENS[rng.gen_range(0..VALUE_LENS.len())]));
		}
		plan.push(tx);
	}
	if growth {
		let j = rng.gen_range(0..plan.len());
		for f in 0..NFILL {
			plan[j].push((FILL0 + f, 9));
		}
		probe("growth_variant");
	}
	let big_tx: bool = mode == Mode::Live && rng.gen_ratio(1, 40);
	// Rarely: fill the commit queue beyond its 16 MiB limit so that the committer is throttled,
	// then let a worker "fail" (store_err) at a scheduler-chosen moment: the blocked commit call
	// must return (with a background error), shutdown must still terminate.
	let throttle_then_fail: bool = mode == Mode::Live && !big_tx && rng.gen_ratio(1, 25);
	// ... in half of these the log worker is the one that died: it never runs, nothing drains
	let dead_log_worker = throttle_then_fail && rng.gen_bool(0.5);
	let mut workers: Vec<Option<thread::JoinHandle<()>>> = Vec::new();
	// same order in which open_inner spawns them: commit, flush, log, cleanup
	for w in [0u8, 1, 2, 3] {
		if w == 2 && dead_log_worker {
			workers.push(None);
			continue
		}
		let d = db.clone();
		workers.push(Some(thread::spawn(move || {
			loom::stall::set_role(w as u32);
			d.verif_run_worker(w, min_log)
		})));
	}
	let committer = {
		let db = db.clone();
		let stamp = stamp.clone();
		let hist = hist.clone();
		let plan = plan.clone();
		thread::spawn(move || {
			loom::stall::set_role(4);
			let mut rng = shuttle::rand::thread_rng();
			for (i, tx) in plan.iter().enumerate() {
				let t = (i + 1) as u32;
				let ops: Vec<(u8, Vec<u8>, Option<Vec<u8>>)> = tx
					.iter()
					.map(|(k, len)| {
						let len = if *k >= 100 {
							9
						} else if (big_tx && i == 0) || throttle_then_fail {
							9 * 1024 * 1024
						} else {
							*len
						};
						(0u8, key_bytes(col_kind, *k), Some(make_value(t, *k, len)))
					})
					.collect();
				let s = stamp.fetch_add(1, Ordering::SeqCst);
				hist.lock().unwrap().txs.push((s, u64::MAX, tx.iter().map(|x| x.0).collect()));
				if let Err(e) = db.commit(ops) {
					if throttle_then_fail && matches!(e, Error::Background(_)) {
						// refused after the injected worker failure: that is the specified outcome
						hist.lock().unwrap().txs.pop();
						crate::probe("commit_refused_after_worker_failure");
						return
					}
					panic!("VIOL C15 commit-failed: commit {t} returned {e}");
				}
				let e = stamp.fetch_add(1, Ordering::SeqCst);
				hist.lock().unwrap().txs[i].1 = e;
				if rng.gen_bool(0.4) {
					thread::yield_now();
				}
			}
		})
	};
	let mut readers = Vec::new();
	for ri in 0..nreaders {
		let db = db.clone();
		let stamp = stamp.clone();
		let hist = hist.clone();
		readers.push(thread::spawn(move || {
			loom::stall::set_role(5);
			let mut rng = shuttle::rand::thread_rng();
			let mut max_seen: u32 = 0;
			let mut log: Vec<(u64, u64, u8, u32)> = Vec::new();
			for _ in 0..reads_per {
				if growth {
					// plain switch points (a yield would drop the reader to the lowest PCT priority)
					for _ in 0..rng.gen_range(0..400) {
						thread::sleep(std::time::Duration::ZERO);
					}
				}
				let k: u8 = if growth && rng.gen_bool(0.6) { FILL0 + rng.gen_range(0..NFILL) } else { rng.gen_range(0..nkeys) };
				let key = key_bytes(col_kind, k);
				let inv = stamp.fetch_add(1, Ordering::SeqCst);
				let got = db.get(0, &key);
				let ret = stamp.fetch_add(1, Ordering::SeqCst);
				let tv = match got {
					Ok(None) => 0u32,
					Ok(Some(v)) => match decode_value(&v, k) {
						Ok(t) => t,
						Err(e) => panic!("VIOL C05 garbage-read: reader {ri} key {k}: {e}"),
					},
					Err(e) => panic!("VIOL C05 read-error: get returned {e}"),
				};
				let h = hist.lock().unwrap();
				let writes = |t: u32| -> bool { t >= 1 && (t as usize) <= h.txs.len() && h.txs[t as usize - 1].2.contains(&k) };
				// last transaction writing k that completed before the read began
				let lower = (1..=h.txs.len() as u32).rev().find(|t| writes(*t) && h.txs[*t as usize - 1].1 < inv).unwrap_or(0);
				// last transaction writing k that had started before the read returned
				let upper = (1..=h.txs.len() as u32).rev().find(|t| writes(*t) && h.txs[*t as usize - 1].0 < ret).unwrap_or(0);
				if tv != 0 && !writes(tv) {
					panic!("VIOL C05 misattributed-read: reader {ri} key {k} returned a value of transaction {tv} which did not write it");
				}
				if tv < lower {
					panic!("VIOL C05 stale-read: reader {ri} key {k} returned transaction {tv} but transaction {lower} writing it had completed before the read began (invoke {inv}, its return {})", h.txs[lower as usize - 1].1);
				}
				if tv > upper {
					panic!("VIOL C05 future-read: reader {ri} key {k} returned transaction {tv} which had not started when the read returned");
				}
				// once T was observed, keys written by T never show anything older than T
				let floor = (1..=max_seen).rev().find(|t| writes(*t)).unwrap_or(0);
				if tv < floor {
					panic!("VIOL C05 went-back-in-time: reader {ri} had observed transaction {max_seen}; key {k} (written by transaction {floor}) now reads transaction {tv}");
				}
				drop(h);
				max_seen = std::cmp::max(max_seen, tv);
				log.push((inv, ret, k, tv));
			}
			log
		}));
	}
	if throttle_then_fail {
		// shutdown in error state reclaims logs without flushing tables: outside C12
		crate::order::disarm();
		for _ in 0..rng.gen_range(0..60) {
			thread::yield_now();
		}
		db.verif_store_err(Error::InvalidInput("injected worker failure".into()));
		probe("worker_failure_injected");
	}
	if let Err(e) = committer.join() {
		std::panic::resume_unwind(e);
	}
	let mut rlogs = Vec::new();
	for r in readers {
		match r.join() {
			Ok(l) => rlogs.push(l),
			Err(e) => std::panic::resume_unwind(e),
		}
	}
	// bounded liveness: without further client activity every accepted commit gets logged (and,
	// when logs are always flushed, applied); shuttle's step bound turns a stall into a failure
	if mode != Mode::Drop && !throttle_then_fail {
		let mut spins = 0u64;
		loop {
			let c = db.verif_pipeline_counts();
			let logged = c.0 == 0;
			let applied = !always_flush || (!c.2 && c.4 <= 0);
			if logged && applied {
				break
			}
			if db.verif_has_bg_err() {
				panic!("VIOL C15 background-error: a worker stored an error without any injected fault");
			}
			spins += 1;
			thread::yield_now();
			if spins > 100_000 {
				panic!("VIOL C15 no-progress: pipeline not drained after {spins} yields of the idle client (queued {}, files to read {}, logged bytes {})", c.0, c.2, c.4);
			}
		}
		probe("drained_without_client_activity");
	} else if rng.gen_bool(0.5) {
		thread::yield_now();
	}
	if loom::stall::FIRED.swap(0, Ordering::Relaxed) > 0 {
		probe("stall_fired");
	}
	// shutdown at this (scheduler-chosen) moment; join in the order drop_inner does
	db.verif_shutdown();
	let order = [2usize, 1, 0, 3];
	let mut ws: Vec<Option<thread::JoinHandle<()>>> = workers;
	for i in order {
		if let Some(h) = ws[i].take() {
			if let Err(e) = h.join() {
				std::panic::resume_unwind(e);
			}
		}
	}
	let db = match Arc::try_unwrap(db) {
		Ok(db) => db,
		Err(_) => panic!("VIOL C15 handle-leaked: a worker kept a reference to the database"),
	};
	drop(db);
	if throttle_then_fail {
		// error state: only what was synced is promised (C16); nothing more to check here
		return
	}
	// reopen without workers: everything whose commit returned must be there
	o.with_background_thread = false;
	let db = match Db::open(&o) {
		Ok(db) => db,
		Err(e) => panic!("VIOL C03 reopen-failed: {e}"),
	};
	let mut model: BTreeMap<u8, u32> = BTreeMap::new();
	for (i, tx) in plan.iter().enumerate() {
		for (k, _) in tx {
			model.insert(*k, (i + 1) as u32);
		}
	}
	let mut all_keys: Vec<u8> = (0..nkeys).collect();
	if growth {
		all_keys.extend(FILL0..FILL0 + NFILL);
	}
	for k in all_keys {
		let got = db.get(0, &key_bytes(col_kind, k));
		let tv = match got {
			Ok(None) => 0,
			Ok(Some(v)) => decode_value(&v, k).unwrap_or(u32::MAX),
			Err(e) => panic!("VIOL C03 read-error-after-reopen: {e}"),
		};
		let want = model.get(&k).cloned().unwrap_or(0);
		if tv != want {
			panic!("VIOL C03 lost-after-drop: key {k} reads transaction {tv} after drop+reopen, the last committed write is transaction {want} (mode {mode:?}, always_flush {always_flush})");
		}
	}
	drop(db);
	if crate::order::disarm() > 0 {
		probe("log_reclaimed_after_flush_checked");
	}
	// record the history (for distinctness and samples)
	let h = hist.lock().unwrap();
	let mut hh = fnv(0, &[col_kind, always_flush as u8, nkeys]);
	for t in &h.txs {
		hh = fnv(hh, &t.0.to_le_bytes());
		hh = fnv(hh, &t.1.to_le_bytes());
		hh = fnv(hh, &t.2);
	}
	for l in &rlogs {
		for e in l {
			hh = fnv(hh, &e.0.to_le_bytes());
			hh = fnv(hh, &e.1.to_le_bytes());
			hh = fnv(hh, &[e.2]);
			hh = fnv(hh, &e.3.to_le_bytes());
		}
	}
	crate::STEPS_HINT.fetch_add(stamp.load(Ordering::Relaxed), Ordering::Relaxed);
	note_history(hh, || {
		json!({
			"scenario": format!("{mode:?}"), "column": (["hash", "btree", "uniform-zero-salt"][col_kind as usize]),
			"always_flush": always_flush, "sync": sync,
			"transactions": h.txs.iter().enumerate().map(|(i, t)| json!({"tx": i + 1, "start": t.0, "end": t.1, "keys": t.2})).collect::<Vec<_>>(),
			"reads": rlogs.iter().map(|l| l.iter().map(|e| json!({"invoke": e.0, "return": e.1, "key": e.2, "saw_tx": e.3})).collect::<Vec<_>>()).collect::<Vec<_>>(),
		})
	});
}

// ---------------------------------------------------------------------------------------------
// C18: at most one live handle per directory

fn lock_scenario() {
	let dir = fresh_dir();
	let mut rng = shuttle::rand::thread_rng();
	let ntasks: usize = rng.gen_range(2..5);
	let rounds: usize = rng.gen_range(1..4);
	// column 1 holds one tree: a tree reader keeps the database's inner state alive after the
	// handle itself was dropped (and its lock released)
	let mut o = Options::with_columns(std::path::Path::new(&dir), 2);
	o.columns[1] = ColumnOptions { multitree: true, append_only: true, ..Default::default() };
	o.salt = Some([3u8; 32]);
	o.stats = false;
	o.with_background_thread = false;
	// create the database and leave something to replay for whoever opens next
	{
		let db = Db::open_or_create(&o).unwrap();
		db.commit_changes(vec![(
			1u8,
			parity_db::Operation::InsertTree(b"tree".to_vec(), parity_db::NewNode { data: vec![1, 2, 3], children: vec![] }),
		)])
		.unwrap();
		drop(db);
		let db = Db::open(&o).unwrap();
		db.commit(vec![(0u8, b"seed".to_vec(), Some(b"value".to_vec()))]).unwrap();
		drop(db);
	}
	let live = Arc::new(AtomicUsize::new(0));
	let opened = Arc::new(AtomicUsize::new(0));
	let refused = Arc::new(AtomicUsize::new(0));
	let dropping = Arc::new(AtomicUsize::new(0));
	let mut tasks = Vec::new();
	for t in 0..ntasks {
		let o = o.clone();
		let live = live.clone();
		let dropping = dropping.clone();
		let opened = opened.clone();
		let refused = refused.clone();
		tasks.push(thread::spawn(move || {
			let mut rng = shuttle::rand::thread_rng();
			// a task keeps trying (with pauses of a few switch points) until it has held the
			// database `rounds` times: attempts are spread over the whole life of the other
			// handles, including their shutdown
			let mut r = 0usize;
			let mut attempts = 0usize;
			while r < rounds && attempts < 1500 {
				attempts += 1;
				if dropping.load(Ordering::SeqCst) > 0 {
					probe("open_attempted_while_another_handle_was_being_dropped");
				}
				// a read-only open takes the same exclusive lock (it replays and reclaims logs)
				let read_only = rng.gen_ratio(1, 3);
				let opened_db = if read_only { Db::open_read_only(&o) } else { Db::open(&o) };
				if read_only {
					probe("read_only_open_attempted");
				}
				match opened_db {
					Ok(db) => {
						let n = live.fetch_add(1, Ordering::SeqCst) + 1;
						if n != 1 {
							// do not run this handle's shutdown next to the other live handle while unwinding
							std::mem::forget(db);
							panic!("VIOL C18 two-live-handles: task {t} opened the directory while {} other handle(s) were alive", n - 1);
						}
						opened.fetch_add(1, Ordering::SeqCst);
						let _ = db.commit(vec![(0u8, vec![b'a', t as u8, r as u8], Some(vec![t as u8; 40]))]);
						if rng.gen_bool(0.6) {
							thread::yield_now();
						}
						match db.get(0, b"seed") {
							Ok(Some(v)) if v == b"value" => {},
							other => panic!("VIOL C18 data-lost: seed key reads {:?}", other.map(|o| o.map(|v| v.len()))),
						}
						// sometimes a tree reader outlives the handle
						let reader = if rng.gen_ratio(1, 3) { db.get_tree(1, b"tree").ok().flatten() } else { None };
						// no scheduling point between the end of drop and the decrement
						dropping.fetch_add(1, Ordering::SeqCst);
						drop(db);
						dropping.fetch_sub(1, Ordering::SeqCst);
						live.fetch_sub(1, Ordering::SeqCst);
						if let Some(rd) = reader {
							probe("tree_reader_outlived_its_handle");
							for _ in 0..rng.gen_range(0..120) {
								thread::sleep(std::time::Duration::ZERO);
							}
							drop(rd);
						}
						r += 1;
					},
					Err(Error::Locked(_)) => {
						refused.fetch_add(1, Ordering::SeqCst);
						if live.load(Ordering::SeqCst) == 0 {
							// legal only while another open/drop is in progress; the flock is
							// released before `live` is decremented, never the other way round
						}
					},
					Err(e) => panic!("VIOL C18 wrong-error: open of a directory that is in use failed with {e} instead of Locked"),
				}
				for _ in 0..rng.gen_range(0..40) {
					thread::sleep(std::time::Duration::ZERO);
				}
				if rng.gen_bool(0.3) {
					thread::yield_now();
				}
			}
		}));
	}
	for t in tasks {
		if let Err(e) = t.join() {
			std::panic::resume_unwind(e);
		}
	}
	// after every handle is dropped the directory can be opened again
	match Db::open(&o) {
		Ok(db) => drop(db),
		Err(e) => panic!("VIOL C18 not-reopenable: open after all handles were dropped failed with {e}"),
	}
	if refused.load(Ordering::SeqCst) > 0 {
		probe("open_refused_with_locked");
	}
	let h = fnv(fnv(0, &[ntasks as u8, rounds as u8]), &[opened.load(Ordering::SeqCst) as u8, refused.load(Ordering::SeqCst) as u8]);
	note_history(h, || json!({"scenario": "lock", "tasks": ntasks, "rounds": rounds, "opened": opened.load(Ordering::SeqCst), "refused_locked": refused.load(Ordering::SeqCst)}));
}

// ---------------------------------------------------------------------------------------------
// C11 (thread part): a tree stays complete and unchanged while a reader lock is held

fn treelock() {
	use parity_db::{NewNode, NodeRef, Operation};
	let dir = fresh_dir();
	let mut rng = shuttle::rand::thread_rng();
	let direct = rng.gen_bool(0.5);
	// half of the executions use reference-counted roots: every tree is referenced once more
	// after its insertion and has to be dereferenced twice
	let rc_roots = rng.gen_bool(0.5);
	let mut o = Options::with_columns(std::path::Path::new(&dir), 1);
	o.columns[0] = ColumnOptions {
		multitree: true,
		allow_direct_node_access: direct,
		preimage: rc_roots,
		ref_counted: rc_roots,
		..Default::default()
	};
	o.salt = Some([5u8; 32]);
	o.stats = false;
	o.with_background_thread = false;
	o.always_flush = true;
	let db = Arc::new(Db::open_or_create(&o).unwrap());
	let mut workers = Vec::new();
	for w in [0u8, 1, 2, 3] {
		let d = db.clone();
		workers.push(thread::spawn(move || d.verif_run_worker(w, 0)));
	}
	let ntrees: u8 = rng.gen_range(2..5);
	fn tree(id: u8, shared: Option<u64>) -> NewNode {
		let mut children = vec![
			NodeRef::New(NewNode { data: vec![id, 1, 1, 1], children: vec![NodeRef::New(NewNode { data: vec![id, 2, 2], children: vec![] })] }),
			NodeRef::New(NewNode { data: vec![id; 40], children: vec![] }),
		];
		if let Some(a) = shared {
			children.push(NodeRef::Existing(a));
		}
		NewNode { data: vec![id, 0], children }
	}
	fn digest(r: &dyn parity_db::TreeReader) -> Result<u64, String> {
		fn walk(r: &dyn parity_db::TreeReader, data: &[u8], children: &[u64], d: u32) -> Result<u64, String> {
			let mut h = fnv(0, data);
			if d > 8 {
				return Err("too deep".into())
			}
			for c in children {
				match r.get_node(*c) {
					Ok(Some((nd, nc))) => h = fnv(h, &walk(r, &nd, &nc, d + 1)?.to_le_bytes()),
					Ok(None) => return Err(format!("node {c} is missing")),
					Err(e) => return Err(format!("get_node failed: {e}")),
				}
			}
			Ok(h)
		}
		match r.get_root() {
			Ok(Some((d, c))) => walk(r, &d, &c, 0),
			Ok(None) => Err("root is gone".into()),
			Err(e) => Err(format!("get_root failed: {e}")),
		}
	}
	// writer: inserts successor trees that share the first child of the previous one; the pruner
	// dereferences every tree but the last one
	let inserted = Arc::new(AtomicUsize::new(0));
	// number of DereferenceTree commits that have returned, per tree
	let derefs: Arc<Vec<AtomicUsize>> = Arc::new((0..8).map(|_| AtomicUsize::new(0)).collect());
	// number of DereferenceTree commit calls that have begun, per tree
	let derefs_started: Arc<Vec<AtomicUsize>> = Arc::new((0..8).map(|_| AtomicUsize::new(0)).collect());
	// In some executions the pruner does not wait for the successor: a tree is dereferenced as soon
	// as it is there, while the writer (holding the read lock of that tree, as a client must when
	// it reuses nodes) inserts the successor that shares its first child.
	let early_prune = rc_roots && rng.gen_bool(0.5);
	// does the last tree share a node with its predecessor? (set by the writer)
	let last_shares = Arc::new(AtomicUsize::new(0));
	let writer = {
		let db = db.clone();
		let inserted = inserted.clone();
		let derefs_started = derefs_started.clone();
		let last_shares = last_shares.clone();
		thread::spawn(move || {
			let mut prev: Option<u64> = None;
			for t in 0..ntrees {
				let key = vec![b't', t];
				if early_prune && t > 0 {
					// reuse a node of the predecessor only under its read lock, and only if its
					// last dereference had not been submitted when the lock was obtained
					let pkey = vec![b't', t - 1];
					let mut done = false;
					if let Ok(Some(r)) = db.get_tree(0, &pkey) {
						let g = r.read();
						let final_submitted = derefs_started[(t - 1) as usize].load(Ordering::SeqCst) >= 2;
						if !final_submitted {
							if let Ok(Some((_d, c))) = g.get_root() {
								if let Some(a) = c.first().cloned() {
									if let Err(e) = db.commit_changes(vec![(0u8, Operation::InsertTree(key.clone(), tree(t, Some(a))))]) {
										panic!("VIOL C11 insert-failed: {e}");
									}
									done = true;
									probe("successor_inserted_under_predecessor_lock");
									if t + 1 == ntrees {
										last_shares.store(1, Ordering::SeqCst);
									}
									for _ in 0..4 {
										thread::yield_now();
									}
								}
							}
						}
						drop(g);
					}
					if !done {
						if let Err(e) = db.commit_changes(vec![(0u8, Operation::InsertTree(key.clone(), tree(t, None)))]) {
							panic!("VIOL C11 insert-failed: {e}");
						}
					}
					if let Err(e) = db.commit_changes(vec![(0u8, Operation::ReferenceTree(key.clone()))]) {
						panic!("VIOL C11 reference-failed: {e}");
					}
					inserted.fetch_add(1, Ordering::SeqCst);
					thread::yield_now();
					continue
				}
				if t + 1 == ntrees && prev.is_some() {
					last_shares.store(1, Ordering::SeqCst);
				}
				if let Err(e) = db.commit_changes(vec![(0u8, Operation::InsertTree(key.clone(), tree(t, prev)))]) {
					panic!("VIOL C11 insert-failed: {e}");
				}
				if rc_roots {
					if let Err(e) = db.commit_changes(vec![(0u8, Operation::ReferenceTree(key.clone()))]) {
						panic!("VIOL C11 reference-failed: {e}");
					}
				}
				inserted.fetch_add(1, Ordering::SeqCst);
				// learn the address of the first child for sharing
				if let Ok(Some(r)) = db.get_tree(0, &key) {
					let g = r.read();
					if let Ok(Some((_d, c))) = g.get_root() {
						prev = c.first().cloned();
					}
				}
				thread::yield_now();
			}
		})
	};
	let pruner = {
		let db = db.clone();
		let inserted = inserted.clone();
		let derefs = derefs.clone();
		let derefs_started = derefs_started.clone();
		thread::spawn(move || {
			let mut rng = shuttle::rand::thread_rng();
			let mut next = 0u8;
			let mut spins = 0;
			while next + 1 < ntrees && spins < 4000 {
				if (inserted.load(Ordering::SeqCst) as u8) > next + (if early_prune { 0 } else { 1 }) {
					let key = vec![b't', next];
					for _ in 0..(if rc_roots { 2 } else { 1 }) {
						derefs_started[next as usize].fetch_add(1, Ordering::SeqCst);
						if let Err(e) = db.commit_changes(vec![(0u8, Operation::DereferenceTree(key.clone()))]) {
							panic!("VIOL C11 dereference-failed: {e}");
						}
						derefs[next as usize].fetch_add(1, Ordering::SeqCst);
						for _ in 0..(if rng.gen_bool(0.5) { rng.gen_range(0..6) } else { rng.gen_range(20..80) }) {
							thread::yield_now();
						}
					}
					next += 1;
				} else {
					spins += 1;
					thread::yield_now();
				}
			}
		})
	};
	let nreaders: usize = rng.gen_range(1..3);
	let mut readers = Vec::new();
	for ri in 0..nreaders {
		let db = db.clone();
		let derefs = derefs.clone();
		let derefs_started = derefs_started.clone();
		readers.push(thread::spawn(move || {
			let mut rng = shuttle::rand::thread_rng();
			for round in 0..3 {
				// bias toward the tree that is dereferenced last (nothing is committed after it)
				let t: u8 = if rng.gen_bool(0.6) { ntrees.saturating_sub(2) } else { rng.gen_range(0..ntrees) };
				let key = vec![b't', t];
				// fetch the handle first, lock it some time later
				let mut reader = None;
				for _ in 0..40 {
					match db.get_tree(0, &key) {
						Ok(Some(r)) => {
							reader = Some(r);
							break
						},
						Ok(None) => thread::yield_now(),
						Err(e) => panic!("VIOL C11 get-tree-failed: {e}"),
					}
				}
				let Some(reader) = reader else { continue };
				for _ in 0..rng.gen_range(0..12) {
					thread::yield_now();
				}
				// sometimes the handle is kept unlocked until the first of two dereferences of
				// this tree has been committed (and had time to be processed)
				if rc_roots && t + 1 < ntrees && rng.gen_bool(0.4) {
					let mut waited = 0;
					// ... and processed: nothing is queued any more
					while (derefs[t as usize].load(Ordering::SeqCst) < 1 || db.verif_pipeline_counts().0 > 0) && waited < 600 {
						waited += 1;
						thread::yield_now();
					}
					for _ in 0..rng.gen_range(0..8) {
						thread::yield_now();
					}
					probe("handle_kept_unlocked_until_first_dereference");
				}
				let g = reader.read();
				// Had the last dereference of this tree already been submitted when the lock was
				// obtained? Then its removal may already have been planned by the log worker (the
				// check for held readers and the plan are not atomic with publishing the record):
				// known finding. Otherwise the lock precedes the dereference and must be honoured.
				let need_all = if rc_roots { 2 } else { 1 };
				let final_submitted = derefs_started[t as usize].load(Ordering::SeqCst) >= need_all;
				// the tree may already be gone when the lock is obtained; if it is there, it
				// must stay complete and unchanged until the guard is dropped
				let first = match digest(&**g) {
					Ok(d) => d,
					Err(_) => continue,
				};
				probe("tree_walked_under_lock");
				// in half of the rounds keep the lock until the pruner's dereference of this very
				// tree has been committed (so that it is processed while the tree is held)
				let wait_for_deref = rng.gen_bool(0.5) && t + 1 < ntrees;
				let need = if rc_roots { 2 } else { 1 };
				let mut waited = 0;
				while wait_for_deref && derefs[t as usize].load(Ordering::SeqCst) < need && waited < 600 {
					waited += 1;
					thread::yield_now();
				}
				if wait_for_deref && waited < 600 {
					probe("lock_held_across_dereference_commit");
				}
				for _ in 0..rng.gen_range(2..10) {
					thread::yield_now();
					match digest(&**g) {
						Ok(d) if d == first => {},
						Ok(_) => panic!("VIOL C11 locked-tree-changed: reader {ri} round {round}: tree {t} changed while its reader lock was held"),
						Err(e) if final_submitted => panic!("VIOL C11 locked-after-removal-was-planned: reader {ri} round {round}: tree {t}: {e} while its reader lock was held; the lock was obtained after the last dereference of this tree had been submitted"),
						Err(e) => panic!("VIOL C11 locked-tree-invalidated: reader {ri} round {round}: tree {t}: {e} while its reader lock was held (lock obtained before the last dereference was submitted)"),
					}
				}
			}
		}));
	}
	for h in [writer, pruner] {
		if let Err(e) = h.join() {
			std::panic::resume_unwind(e);
		}
	}
	for r in readers {
		if let Err(e) = r.join() {
			std::panic::resume_unwind(e);
		}
	}
	// every reader lock is released: the postponed removals must now complete without any
	// further client activity (all trees but the last one were dereferenced by the pruner)
	let mut spins = 0u64;
	loop {
		let c = db.verif_pipeline_counts();
		let mut left = Vec::new();
		if c.0 == 0 {
			for t in 0..ntrees.saturating_sub(1) {
				match db.get_tree(0, &[b't', t]) {
					Ok(None) => {},
					Ok(Some(_)) => left.push(t),
					Err(e) => panic!("VIOL C11 get-tree-failed: {e}"),
				}
			}
			if left.is_empty() {
				break
			}
		}
		spins += 1;
		thread::yield_now();
		if spins > 60_000 {
			let d: Vec<usize> = derefs.iter().take(ntrees as usize).map(|x| x.load(Ordering::SeqCst)).collect();
			panic!("VIOL C11 postponed-removal-never-completes: after all reader locks were released and with no further commits, {} commit(s) are still queued and trees {:?} are still present (ref-counted roots: {rc_roots}, trees {ntrees}, dereference commits returned per tree {:?})", c.0, left, d);
		}
	}
	probe("postponed_removals_completed");
	// the last tree was never dereferenced: it must be complete, including the node it reuses
	{
		fn leaf(d: Vec<u8>) -> (Vec<u8>, Vec<(Vec<u8>, Vec<(Vec<u8>, Vec<()>)>)>) {
			(d, Vec::new())
		}
		let _ = leaf;
		// digest of the expected shape, computed the way `digest` walks the stored tree
		fn node(data: &[u8], children: &[u64]) -> u64 {
			let mut h = fnv(0, data);
			for c in children {
				h = fnv(h, &c.to_le_bytes());
			}
			h
		}
		let first_child = |id: u8| node(&[id, 1, 1, 1], &[node(&[id, 2, 2], &[])]);
		let t = ntrees - 1;
		let mut kids = vec![first_child(t), node(&vec![t; 40], &[])];
		if last_shares.load(Ordering::SeqCst) == 1 {
			kids.push(first_child(t - 1));
		}
		let want = node(&[t, 0], &kids);
		match db.get_tree(0, &[b't', t]) {
			Ok(Some(r)) => {
				let g = r.read();
				match digest(&**g) {
					Ok(d) if d == want => probe("last_tree_complete"),
					Ok(_) => panic!("VIOL C11 successor-tree-changed: the last tree (never dereferenced, reusing a node of its predecessor: {}) does not read back as inserted", last_shares.load(Ordering::SeqCst) == 1),
					Err(e) => panic!("VIOL C11 successor-tree-invalid: the last tree (never dereferenced, reusing a node of its predecessor: {}) lost a node: {e}", last_shares.load(Ordering::SeqCst) == 1),
				}
			},
			Ok(None) => panic!("VIOL C11 successor-tree-invalid: the last tree (never dereferenced) is gone"),
			Err(e) => panic!("VIOL C11 get-tree-failed: {e}"),
		}
	}
	db.verif_shutdown();
	let mut ws: Vec<Option<thread::JoinHandle<()>>> = workers.into_iter().map(Some).collect();
	for i in [2usize, 1, 0, 3] {
		if let Some(h) = ws[i].take() {
			if let Err(e) = h.join() {
				std::panic::resume_unwind(e);
			}
		}
	}
	if let Ok(db) = Arc::try_unwrap(db) {
		drop(db);
	}
	note_history(fnv(0, &[ntrees, nreaders as u8, direct as u8]) ^ crate::EXECUTIONS.load(Ordering::Relaxed), || {
		json!({"scenario": "treelock", "trees": ntrees, "readers": nreaders})
	});
}

// ---------------------------------------------------------------------------------------------
// C05 / C04 (thread part, extended): several committers, removals, size reads and (btree) iterator
// steps, judged by a partial-order oracle. Every transaction has invoke/return stamps; "A
// definitely precedes B" = A returned before B was invoked. Each observation adds constraints
// "A is ordered before B in commit order"; at the end the constraints together with the real-time
// order must be acyclic (a small linearizability check: values are unique per transaction, so
// every read is attributable to one write).

#[derive(Clone)]
struct TxX {
	inv: u64,
	ret: u64,
	/// (key, Some(len) = set / None = removal)
	writes: Vec<(u8, Option<usize>)>,
}

struct HistX {
	txs: Vec<TxX>, // index = transaction id - 1; inv == 0: not invoked yet
	cons: Vec<(u32, u32, String)>,
}

impl HistX {
	fn writes(&self, t: u32, k: u8) -> Option<Option<usize>> {
		self.txs.get(t as usize - 1).and_then(|x| x.writes.iter().find(|w| w.0 == k).map(|w| w.1))
	}
	fn started(&self, t: u32) -> bool {
		self.txs.get(t as usize - 1).map_or(false, |x| x.inv != 0)
	}
	fn inv(&self, t: u32) -> u64 {
		self.txs[t as usize - 1].inv
	}
	fn ret(&self, t: u32) -> u64 {
		self.txs[t as usize - 1].ret
	}
	fn ids(&self) -> std::ops::RangeInclusive<u32> {
		1..=self.txs.len() as u32
	}
	/// Judge one observation of key `k` made between stamps `rinv` and `rret`: `Some(t)` = the value
	/// of transaction t, `None` = absent. `seen` = transactions this reader has observed so far.
	fn observe(&mut self, who: &str, k: u8, got: Option<u32>, rinv: u64, rret: u64, seen: &mut Vec<u32>) -> Result<(), String> {
		match got {
			Some(t) => {
				if t == 0 || t as usize > self.txs.len() || !matches!(self.writes(t, k), Some(Some(_))) {
					return Err(format!("misattributed-read: {who} key {k} returned a value of transaction {t} which did not set it"))
				}
				if !self.started(t) || self.inv(t) > rret {
					return Err(format!("future-read: {who} key {k} returned transaction {t} which had not started when the read returned"))
				}
				for o in self.ids() {
					if o == t || self.writes(o, k).is_none() || !self.started(o) {
						continue
					}
					if self.ret(o) < rinv {
						// o completed before the read began: t must not be older than o
						if self.ret(t) < self.inv(o) {
							return Err(format!("stale-read: {who} key {k} returned transaction {t}, but transaction {o} writing it started after {t} had returned and completed before the read began (read invoked at {rinv}, {o} returned at {})", self.ret(o)));
						}
						self.cons.push((o, t, format!("{who} read key {k} = tx {t} after tx {o} had completed")));
					}
				}
				for &s in seen.iter() {
					if s != t && self.writes(s, k).is_some() {
						if self.ret(t) < self.inv(s) {
							return Err(format!("went-back-in-time: {who} had observed transaction {s}; key {k} (written by {s}) now reads transaction {t}, which returned before {s} started"));
						}
						self.cons.push((s, t, format!("{who} had observed tx {s} and then read key {k} = tx {t}")));
					}
				}
				if !seen.contains(&t) {
					seen.push(t);
				}
				Ok(())
			},
			None => {
				// candidates: the initial state (id 0) and every removal of k invoked before the read returned
				let mut cands: Vec<u32> = vec![0];
				for o in self.ids() {
					if self.started(o) && self.inv(o) < rret && self.writes(o, k) == Some(None) {
						cands.push(o);
					}
				}
				let mut why = String::new();
				let ok = cands.iter().any(|&c| {
					let cret = if c == 0 { 0 } else { self.ret(c) };
					for o in self.ids() {
						if o == c || self.writes(o, k).is_none() || !self.started(o) {
							continue
						}
						if self.ret(o) < rinv && cret < self.inv(o) {
							why = format!("transaction {o} writing it had completed before the read began");
							return false
						}
					}
					for &s in seen.iter() {
						if s != c && self.writes(s, k).is_some() && cret < self.inv(s) {
							why = format!("the reader had already observed transaction {s}, which writes it");
							return false
						}
					}
					true
				});
				if ok {
					Ok(())
				} else {
					Err(format!("stale-read: {who} key {k} reads as absent, but {why} and no removal of it can be ordered last (read {rinv}..{rret})"))
				}
			},
		}
	}
	/// The constraints plus the real-time order must admit a total order.
	fn check_acyclic(&self) -> Result<(), String> {
		let n = self.txs.len();
		let mut adj: Vec<Vec<(usize, String)>> = vec![Vec::new(); n];
		for a in 0..n {
			for b in 0..n {
				if a != b && self.txs[a].inv != 0 && self.txs[b].inv != 0 && self.txs[a].ret < self.txs[b].inv {
					adj[a].push((b, format!("tx {} returned before tx {} was invoked", a + 1, b + 1)));
				}
			}
		}
		for (a, b, w) in &self.cons {
			adj[*a as usize - 1].push((*b as usize - 1, w.clone()));
		}
		// DFS with colours
		fn dfs(u: usize, adj: &Vec<Vec<(usize, String)>>, col: &mut Vec<u8>, path: &mut Vec<String>) -> bool {
			col[u] = 1;
			for (v, w) in &adj[u] {
				if col[*v] == 1 {
					path.push(w.clone());
					return true
				}
				if col[*v] == 0 {
					path.push(w.clone());
					if dfs(*v, adj, col, path) {
						return true
					}
					path.pop();
				}
			}
			col[u] = 2;
			false
		}
		let mut col = vec![0u8; n];
		for u in 0..n {
			if col[u] == 0 {
				let mut path = Vec::new();
				if dfs(u, &adj, &mut col, &mut path) {
					let tail: Vec<String> = path.iter().rev().take(6).rev().cloned().collect();
					return Err(format!("not-linearizable: the observations admit no commit order: {}", tail.join(" -> ")))
				}
			}
		}
		Ok(())
	}
}

fn visx(iter_mode: bool, heavy: bool) {
	let prop = if iter_mode { "C04" } else { "C05" };
	let dir = fresh_dir();
	let mut rng = shuttle::rand::thread_rng();
	let col_kind: u8 = if iter_mode { 1 } else { rng.gen_range(0..3) };
	let always_flush = rng.gen_bool(0.7);
	let nkeys: u8 = rng.gen_range(2..7);
	// heavy (C15): several committers with values of tens to hundreds of KiB, so that the (verification
	// build's) limits on queued commits and on logged-but-unapplied bytes are crossed in both directions
	let ncommitters: usize = if heavy { rng.gen_range(2..5) } else { rng.gen_range(1..4) };
	let removals = rng.gen_bool(0.6);
	let ntx_per: usize = if heavy { rng.gen_range(3..8) } else { rng.gen_range(1..(if ncommitters == 1 { 9 } else { 5 })) };
	let nreaders: usize = if heavy { rng.gen_range(0..2) } else { rng.gen_range(1..4) };
	let reads_per: usize = rng.gen_range(2..12);
	let sync = rng.gen_bool(0.5);
	crate::order::arm(sync);
	loom::stall::clear();
	if rng.gen_bool(if heavy { 0.7 } else { 0.4 }) {
		// heavy: mostly the commit worker (0) or the log worker (2) falls behind
		let role = if heavy && rng.gen_bool(0.7) { *[0u32, 2].get(rng.gen_range(0..2usize)).unwrap() } else if !heavy && rng.gen_bool(0.4) { 5 } else { rng.gen_range(0..6u32) };
		let at = if role == 5 { rng.gen_range(1..90u32) } else if rng.gen_bool(0.5) { rng.gen_range(1..60u32) } else { rng.gen_range(1..600u32) };
		let len = if role == 5 { *[1000u32, 4000].get(rng.gen_range(0..2usize)).unwrap() } else { *[30u32, 200, 1000, 4000].get(rng.gen_range(0..4usize)).unwrap() };
		loom::stall::plan(role, at, len);
		probe("stall_planned");
	}
	let mut o = Options::with_columns(std::path::Path::new(&dir), 1);
	o.columns[0] = ColumnOptions { btree_index: col_kind == 1, uniform: col_kind == 2, ..Default::default() };
	o.salt = Some(if col_kind == 2 { [0u8; 32] } else { [7u8; 32] });
	o.sync_wal = sync;
	o.sync_data = sync;
	o.stats = false;
	o.with_background_thread = false;
	o.always_flush = always_flush;
	let db = match Db::open_or_create(&o) {
		Ok(db) => Arc::new(db),
		Err(e) => panic!("VIOL C15 open-failed: {e}"),
	};
	let min_log: u64 = if always_flush { 0 } else { MIN_LOG };
	let stamp = Arc::new(AtomicU64::new(1));
	// plan: transaction ids are fixed up front: committer c's j-th transaction is 1 + c * ntx_per + j
	let ntx = ncommitters * ntx_per;
	let mut txs: Vec<TxX> = Vec::new();
	for _ in 0..ntx {
		let n = rng.gen_range(1..=std::cmp::min(4, nkeys as usize));
		let mut keys: Vec<u8> = (0..nkeys).collect();
		let mut w = Vec::new();
		for _ in 0..n {
			let i = rng.gen_range(0..keys.len());
			let k = keys.remove(i);
			let rem = removals && rng.gen_ratio(1, 3);
			const HEAVY_LENS: [usize; 6] = [20, 40_000, 90_000, 90_000, 200_000, 400_000];
			let len = if heavy { HEAVY_LENS[rng.gen_range(0..HEAVY_LENS.len())] } else { VALUE_LENS[rng.gen_range(0..VALUE_LENS.len())] };
			w.push((k, if rem { None } else { Some(len) }));
		}
		txs.push(TxX { inv: 0, ret: u64::MAX, writes: w });
	}
	let hist = Arc::new(Mutex::new(HistX { txs: txs.clone(), cons: Vec::new() }));
	let mut workers: Vec<Option<thread::JoinHandle<()>>> = Vec::new();
	for w in [0u8, 1, 2, 3] {
		let d = db.clone();
		workers.push(Some(thread::spawn(move || {
			loom::stall::set_role(w as u32);
			d.verif_run_worker(w, min_log)
		})));
	}
	let mut committers = Vec::new();
	for c in 0..ncommitters {
		let db = db.clone();
		let stamp = stamp.clone();
		let hist = hist.clone();
		let txs = txs.clone();
		committers.push(thread::spawn(move || {
			loom::stall::set_role(4);
			let mut rng = shuttle::rand::thread_rng();
			for j in 0..ntx_per {
				let t = (1 + c * ntx_per + j) as u32;
				let ops: Vec<(u8, Vec<u8>, Option<Vec<u8>>)> =
					txs[t as usize - 1].writes.iter().map(|(k, len)| (0u8, key_bytes(col_kind, *k), len.map(|l| make_value(t, *k, l)))).collect();
				let s = stamp.fetch_add(1, Ordering::SeqCst);
				hist.lock().unwrap().txs[t as usize - 1].inv = s;
				if let Err(e) = db.commit(ops) {
					panic!("VIOL C15 commit-failed: commit {t} returned {e}");
				}
				let e = stamp.fetch_add(1, Ordering::SeqCst);
				hist.lock().unwrap().txs[t as usize - 1].ret = e;
				if rng.gen_bool(0.4) {
					thread::yield_now();
				}
				for _ in 0..rng.gen_range(0..20) {
					thread::sleep(std::time::Duration::ZERO);
				}
			}
		}));
	}
	let mut readers = Vec::new();
	for ri in 0..nreaders {
		let db = db.clone();
		let stamp = stamp.clone();
		let hist = hist.clone();
		readers.push(thread::spawn(move || {
			loom::stall::set_role(5);
			let mut rng = shuttle::rand::thread_rng();
			let mut seen: Vec<u32> = Vec::new();
			let mut log: Vec<(u64, u64, u8, u32)> = Vec::new();
			let who = format!("reader {ri}");
			let mut left = reads_per;
			while left > 0 {
				left -= 1;
				if col_kind == 1 && (iter_mode || rng.gen_ratio(1, 4)) && rng.gen_ratio(3, 4) {
					// an iterator walk: every step is judged against the state at the time of the call
					probe("iterator_walk_under_threads");
					let mut it = match db.iter(0) {
						Ok(it) => it,
						Err(e) => panic!("VIOL {prop} iter-error: {e}"),
					};
					let forward = rng.gen_bool(0.6);
					let from: Option<u8> = if rng.gen_bool(0.5) { Some(rng.gen_range(0..nkeys)) } else { None };
					let r = match from {
						Some(k) => it.seek(&key_bytes(col_kind, k)),
						None if forward => it.seek_to_first(),
						None => it.seek_to_last(),
					};
					if let Err(e) = r {
						panic!("VIOL {prop} iter-error: seek returned {e}");
					}
					// keys still to be accounted for, in the order of the walk
					let mut pending: Vec<u8> = match (forward, from) {
						(true, Some(k)) => (k..nkeys).collect(),
						(true, None) => (0..nkeys).collect(),
						(false, Some(k)) => (0..=k).rev().collect(),
						(false, None) => (0..nkeys).rev().collect(),
					};
					let steps = rng.gen_range(1..=nkeys as usize + 1);
					for _ in 0..steps {
						if rng.gen_bool(0.3) {
							for _ in 0..rng.gen_range(0..30) {
								thread::sleep(std::time::Duration::ZERO);
							}
						}
						let inv = stamp.fetch_add(1, Ordering::SeqCst);
						let got = if forward { it.next() } else { it.prev() };
						let ret = stamp.fetch_add(1, Ordering::SeqCst);
						let got = match got {
							Ok(g) => g,
							Err(e) => panic!("VIOL {prop} iter-error: step returned {e}"),
						};
						let mut h = hist.lock().unwrap();
						match got {
							Some((key, val)) => {
								if key.len() != 2 || key[0] != b'k' || !pending.contains(&key[1]) {
									panic!("VIOL {prop} iter-order: {who} iterator ({}) returned key {:?}, expected one of the keys {:?}", if forward { "forward" } else { "backward" }, key, pending);
								}
								let k = key[1];
								let t = match decode_value(&val, k) {
									Ok(t) => t,
									Err(e) => panic!("VIOL {prop} garbage-read: {who} iterator key {k}: {e}"),
								};
								// every key passed over must have been absent at some moment of the call
								while pending[0] != k {
									let x = pending.remove(0);
									if let Err(e) = h.observe(&format!("{who} iterator (passed over)"), x, None, inv, ret, &mut seen) {
										panic!("VIOL {prop} iter-skipped-live-key: {e}");
									}
								}
								pending.remove(0);
								if let Err(e) = h.observe(&format!("{who} iterator"), k, Some(t), inv, ret, &mut seen) {
									panic!("VIOL {prop} iter-{e}");
								}
								log.push((inv, ret, k, t));
							},
							None => {
								for x in pending.drain(..) {
									if let Err(e) = h.observe(&format!("{who} iterator (end reached)"), x, None, inv, ret, &mut seen) {
										panic!("VIOL {prop} iter-skipped-live-key: {e}");
									}
								}
								log.push((inv, ret, 255, 0));
								break
							},
						}
					}
					continue
				}
				let k: u8 = rng.gen_range(0..nkeys);
				let key = key_bytes(col_kind, k);
				let by_size = rng.gen_ratio(1, 4);
				let inv = stamp.fetch_add(1, Ordering::SeqCst);
				let (got, size) = if by_size {
					match db.get_size(0, &key) {
						Ok(s) => (None, s),
						Err(e) => panic!("VIOL C05 read-error: get_size returned {e}"),
					}
				} else {
					match db.get(0, &key) {
						Ok(v) => (v, None),
						Err(e) => panic!("VIOL C05 read-error: get returned {e}"),
					}
				};
				let ret = stamp.fetch_add(1, Ordering::SeqCst);
				let mut h = hist.lock().unwrap();
				if by_size {
					match size {
						None =>
							if let Err(e) = h.observe(&who, k, None, inv, ret, &mut seen) {
								panic!("VIOL C05 {e}");
							},
						Some(sz) => {
							// the size must be that of an admissible transaction; judged fully when only one fits
							let fits: Vec<u32> = h
								.ids()
								.filter(|t| matches!(h.writes(*t, k), Some(Some(l)) if l.max(5) as u32 == sz))
								.collect();
							let mut last_err = format!("size-mismatch: {who} key {k} reports {sz} bytes, no transaction set a value of that size");
							let mut ok = false;
							for t in &fits {
								let mut trial = HistX { txs: h.txs.clone(), cons: Vec::new() };
								let mut s2 = seen.clone();
								match trial.observe(&who, k, Some(*t), inv, ret, &mut s2) {
									Ok(()) => {
										ok = true;
										if fits.len() == 1 {
											h.cons.extend(trial.cons);
											seen = s2;
										}
										break
									},
									Err(e) => last_err = e,
								}
							}
							if !ok {
								panic!("VIOL C05 {last_err} (get_size)");
							}
							probe("size_read_under_threads");
						},
					}
					log.push((inv, ret, k, u32::MAX));
				} else {
					let tv = match &got {
						None => None,
						Some(v) => match decode_value(v, k) {
							Ok(t) => Some(t),
							Err(e) => panic!("VIOL C05 garbage-read: {who} key {k}: {e}"),
						},
					};
					if let Err(e) = h.observe(&who, k, tv, inv, ret, &mut seen) {
						panic!("VIOL C05 {e}");
					}
					log.push((inv, ret, k, tv.unwrap_or(0)));
				}
			}
			log
		}));
	}
	for c in committers {
		if let Err(e) = c.join() {
			std::panic::resume_unwind(e);
		}
	}
	let mut rlogs = Vec::new();
	for r in readers {
		match r.join() {
			Ok(l) => rlogs.push(l),
			Err(e) => std::panic::resume_unwind(e),
		}
	}
	if heavy {
		// bounded liveness: without further client activity every accepted commit gets logged (and,
		// when logs are always flushed, applied)
		let mut spins = 0u64;
		loop {
			let c = db.verif_pipeline_counts();
			if c.0 == 0 && (!always_flush || (!c.2 && c.4 <= 0)) {
				break
			}
			if db.verif_has_bg_err() {
				panic!("VIOL C15 background-error: a worker stored an error without any injected fault");
			}
			spins += 1;
			thread::yield_now();
			if spins > 100_000 {
				panic!("VIOL C15 no-progress: pipeline not drained after {spins} yields of the idle clients (queued {}, files to read {}, logged bytes {})", c.0, c.2, c.4);
			}
		}
		probe("drained_without_client_activity");
		probe("heavy_several_committers");
	} else if rng.gen_bool(0.5) {
		thread::yield_now();
	}
	if loom::stall::FIRED.swap(0, Ordering::Relaxed) > 0 {
		probe("stall_fired");
	}
	db.verif_shutdown();
	let order = [2usize, 1, 0, 3];
	let mut ws = workers;
	for i in order {
		if let Some(h) = ws[i].take() {
			if let Err(e) = h.join() {
				std::panic::resume_unwind(e);
			}
		}
	}
	let db = match Arc::try_unwrap(db) {
		Ok(db) => db,
		Err(_) => panic!("VIOL C15 handle-leaked: a worker kept a reference to the database"),
	};
	drop(db);
	// reopen: the final state must be explained by a commit order consistent with everything observed
	let db = match Db::open(&o) {
		Ok(db) => db,
		Err(e) => panic!("VIOL C03 reopen-failed: {e}"),
	};
	let mut h = hist.lock().unwrap();
	let end = stamp.fetch_add(2, Ordering::SeqCst);
	let mut final_seen: Vec<u32> = Vec::new();
	for k in 0..nkeys {
		let tv = match db.get(0, &key_bytes(col_kind, k)) {
			Ok(None) => None,
			Ok(Some(v)) => match decode_value(&v, k) {
				Ok(t) => Some(t),
				Err(e) => panic!("VIOL C03 garbage-after-reopen: key {k}: {e}"),
			},
			Err(e) => panic!("VIOL C03 read-error-after-reopen: {e}"),
		};
		// every transaction completed before this read began; the observer has seen nothing before
		let mut none_seen = Vec::new();
		if let Err(e) = h.observe("final state after drop and reopen", k, tv, end, end + 1, &mut none_seen) {
			panic!("VIOL C03 lost-after-drop: {e}");
		}
		if let Some(t) = tv {
			final_seen.push(t);
		}
	}
	drop(db);
	if let Err(e) = h.check_acyclic() {
		panic!("VIOL {prop} {e}");
	}
	crate::order::disarm();
	if ncommitters > 1 {
		probe("several_committers");
	}
	if removals {
		probe("removals_under_threads");
	}
	let mut hh = fnv(0, &[col_kind, always_flush as u8, nkeys, ncommitters as u8]);
	for t in &h.txs {
		hh = fnv(hh, &t.inv.to_le_bytes());
		hh = fnv(hh, &t.ret.to_le_bytes());
	}
	for l in &rlogs {
		for e in l {
			hh = fnv(hh, &e.0.to_le_bytes());
			hh = fnv(hh, &e.1.to_le_bytes());
			hh = fnv(hh, &[e.2]);
			hh = fnv(hh, &e.3.to_le_bytes());
		}
	}
	crate::STEPS_HINT.fetch_add(stamp.load(Ordering::Relaxed), Ordering::Relaxed);
	note_history(hh, || {
		json!({
			"scenario": if iter_mode { "iter (visx)" } else { "visx" }, "column": (["hash", "btree", "uniform-zero-salt"][col_kind as usize]),
			"committers": ncommitters, "removals": removals, "always_flush": always_flush, "sync": sync,
			"transactions": h.txs.iter().enumerate().map(|(i, t)| json!({"tx": i + 1, "start": t.inv, "end": t.ret,
				"writes": t.writes.iter().map(|w| json!([w.0, w.1])).collect::<Vec<_>>()})).collect::<Vec<_>>(),
			"reads": rlogs.iter().map(|l| l.iter().map(|e| json!({"invoke": e.0, "return": e.1, "key": e.2, "saw_tx": e.3})).collect::<Vec<_>>()).collect::<Vec<_>>(),
			"order_constraints_checked": h.cons.len(),
		})
	});
}

// ---------------------------------------------------------------------------------------------
// C16 (thread part): file operations start failing at a scheduler-chosen moment while the four
// real worker loops, a committer and readers run. parity-db's own `try_io` counter is the fault
// (thread-local; all shuttle tasks of one execution share the OS thread, so the n-th wrapped file
// operation of *any* thread fails, and every later one).

fn ioerr_threads() {
	let dir = fresh_dir();
	let mut rng = shuttle::rand::thread_rng();
	let col_kind: u8 = rng.gen_range(0..2); // hash, btree (no index growth: record id = transaction number)
	let always_flush = rng.gen_bool(0.7);
	let nkeys: u8 = rng.gen_range(2..6);
	let ntx: usize = rng.gen_range(2..14);
	let nreaders: usize = rng.gen_range(0..3);
	let reads_per: usize = rng.gen_range(2..12);
	let removals = rng.gen_bool(0.4);
	crate::order::arm(false);
	loom::stall::clear();
	if rng.gen_bool(0.3) {
		let role = rng.gen_range(0..6u32);
		loom::stall::plan(role, rng.gen_range(1..200u32), *[30u32, 200, 1000].get(rng.gen_range(0..3usize)).unwrap());
	}
	let mut o = Options::with_columns(std::path::Path::new(&dir), 1);
	o.columns[0] = ColumnOptions { btree_index: col_kind == 1, ..Default::default() };
	o.salt = Some([7u8; 32]);
	o.sync_wal = true;
	o.sync_data = true;
	o.stats = false;
	o.with_background_thread = false;
	o.always_flush = always_flush;
	parity_db::set_number_of_allowed_io_operations(usize::MAX);
	let db = match Db::open_or_create(&o) {
		Ok(db) => Arc::new(db),
		Err(e) => panic!("VIOL C15 open-failed: {e}"),
	};
	let min_log: u64 = if always_flush { 0 } else { MIN_LOG };
	// record ids continue from what the (empty) database reports as enacted at open
	let enacted_at_open = db.verif_pipeline_counts().5 as usize;
	let stamp = Arc::new(AtomicU64::new(1));
	let mut txs: Vec<TxX> = Vec::new();
	for _ in 0..ntx + 1 {
		let n = rng.gen_range(1..=std::cmp::min(4, nkeys as usize));
		let mut keys: Vec<u8> = (0..nkeys).collect();
		let mut w = Vec::new();
		for _ in 0..n {
			let i = rng.gen_range(0..keys.len());
			let k = keys.remove(i);
			let rem = removals && rng.gen_ratio(1, 3);
			w.push((k, if rem { None } else { Some(VALUE_LENS[rng.gen_range(0..VALUE_LENS.len())]) }));
		}
		txs.push(TxX { inv: 0, ret: u64::MAX, writes: w });
	}
	let hist = Arc::new(Mutex::new(HistX { txs: txs.clone(), cons: Vec::new() }));
	let armed = Arc::new(AtomicU64::new(0));
	let mut workers: Vec<Option<thread::JoinHandle<()>>> = Vec::new();
	for w in [0u8, 1, 2, 3] {
		let d = db.clone();
		workers.push(Some(thread::spawn(move || {
			loom::stall::set_role(w as u32);
			d.verif_run_worker(w, min_log)
		})));
	}
	let ops_of = move |txs: &Vec<TxX>, t: u32| -> Vec<(u8, Vec<u8>, Option<Vec<u8>>)> {
		txs[t as usize - 1].writes.iter().map(|(k, len)| (0u8, key_bytes(col_kind, *k), len.map(|l| make_value(t, *k, l)))).collect()
	};
	// the committer returns the number of accepted transactions
	let committer = {
		let db = db.clone();
		let stamp = stamp.clone();
		let hist = hist.clone();
		let txs = txs.clone();
		let armed = armed.clone();
		thread::spawn(move || -> usize {
			loom::stall::set_role(4);
			let mut rng = shuttle::rand::thread_rng();
			for t in 1..=ntx as u32 {
				let s = stamp.fetch_add(1, Ordering::SeqCst);
				hist.lock().unwrap().txs[t as usize - 1].inv = s;
				match db.commit(ops_of(&txs, t)) {
					Ok(()) => {
						let e = stamp.fetch_add(1, Ordering::SeqCst);
						hist.lock().unwrap().txs[t as usize - 1].ret = e;
					},
					Err(e) => {
						// refused: it never existed
						hist.lock().unwrap().txs[t as usize - 1].inv = 0;
						if armed.load(Ordering::SeqCst) == 0 {
							panic!("VIOL C16 commit-failed-without-fault: commit {t} returned {e} before any fault was injected");
						}
						if !matches!(e, Error::Background(_) | Error::Io(_)) {
							panic!("VIOL C16 wrong-error: commit {t} returned {e} after an injected I/O failure");
						}
						probe("commit_refused_after_io_failure");
						return t as usize - 1
					},
				}
				if rng.gen_bool(0.4) {
					thread::yield_now();
				}
				for _ in 0..rng.gen_range(0..30) {
					thread::sleep(std::time::Duration::ZERO);
				}
			}
			ntx
		})
	};
	let mut readers = Vec::new();
	for ri in 0..nreaders {
		let db = db.clone();
		let stamp = stamp.clone();
		let hist = hist.clone();
		let armed = armed.clone();
		readers.push(thread::spawn(move || {
			loom::stall::set_role(5);
			let mut rng = shuttle::rand::thread_rng();
			let mut seen: Vec<u32> = Vec::new();
			let who = format!("reader {ri}");
			for _ in 0..reads_per {
				for _ in 0..rng.gen_range(0..40) {
					thread::sleep(std::time::Duration::ZERO);
				}
				let k: u8 = rng.gen_range(0..nkeys);
				let inv = stamp.fetch_add(1, Ordering::SeqCst);
				let got = db.get(0, &key_bytes(col_kind, k));
				let ret = stamp.fetch_add(1, Ordering::SeqCst);
				let tv = match got {
					Ok(None) => None,
					Ok(Some(v)) => match decode_value(&v, k) {
						Ok(t) => Some(t),
						Err(e) => panic!("VIOL C16 garbage-read: {who} key {k}: {e}"),
					},
					Err(e) => {
						// the instrumentation counter also fails table reads: reported by the failing call
						if armed.load(Ordering::SeqCst) == 0 {
							panic!("VIOL C16 read-error-without-fault: {e}");
						}
						probe("read_failed_after_io_failure");
						continue
					},
				};
				if let Err(e) = hist.lock().unwrap().observe(&who, k, tv, inv, ret, &mut seen) {
					panic!("VIOL C16 wrong-data-{e}");
				}
			}
		}));
	}
	// arm the fault at a scheduler-chosen moment
	for _ in 0..rng.gen_range(0..250) {
		thread::sleep(std::time::Duration::ZERO);
	}
	let synced_floor = (db.verif_pipeline_counts().5 as usize).saturating_sub(enacted_at_open);
	let allowed: usize = if rng.gen_bool(0.3) { 0 } else { rng.gen_range(0..40) };
	armed.store(1, Ordering::SeqCst);
	parity_db::set_number_of_allowed_io_operations(allowed);
	probe("io_fault_armed");
	let accepted = match committer.join() {
		Ok(n) => n,
		Err(e) => {
			parity_db::set_number_of_allowed_io_operations(usize::MAX);
			std::panic::resume_unwind(e)
		},
	};
	for r in readers {
		if let Err(e) = r.join() {
			parity_db::set_number_of_allowed_io_operations(usize::MAX);
			std::panic::resume_unwind(e);
		}
	}
	// let the pipeline run into the fault (or drain)
	let mut spins = 0u64;
	loop {
		let c = db.verif_pipeline_counts();
		if db.verif_has_bg_err() || (c.0 == 0 && (!always_flush || (!c.2 && c.4 <= 0))) {
			break
		}
		spins += 1;
		thread::yield_now();
		if spins > 100_000 {
			parity_db::set_number_of_allowed_io_operations(usize::MAX);
			panic!("VIOL C16 no-progress: neither drained nor stopped with an error after {spins} yields (queued {}, files to read {}, logged bytes {})", c.0, c.2, c.4);
		}
	}
	// no new failure from here on (one may still be on its way up a worker's stack)
	parity_db::set_number_of_allowed_io_operations(usize::MAX);
	let failed = db.verif_has_bg_err();
	if failed {
		probe("worker_stopped_with_io_error");
		// later commits are refused
		let extra = (ntx + 1) as u32;
		if db.commit(ops_of(&txs, extra)).is_ok() {
			parity_db::set_number_of_allowed_io_operations(usize::MAX);
			panic!("VIOL C16 commit-accepted-after-background-error: a worker had stored an I/O error, yet a later commit was accepted");
		}
	}
	// reads keep returning committed data (fault lifted: the counter would also fail plain table reads)
	parity_db::set_number_of_allowed_io_operations(usize::MAX);
	let model_at = |j: usize| -> BTreeMap<u8, Option<u32>> {
		let mut m = BTreeMap::new();
		for t in 1..=j {
			for (k, w) in &txs[t - 1].writes {
				m.insert(*k, w.map(|_| t as u32));
			}
		}
		m
	};
	let read_all = |db: &Db, what: &str| -> BTreeMap<u8, Option<u32>> {
		let mut m = BTreeMap::new();
		for k in 0..nkeys {
			match db.get(0, &key_bytes(col_kind, k)) {
				Ok(None) => {},
				Ok(Some(v)) => match decode_value(&v, k) {
					Ok(t) => {
						m.insert(k, Some(t));
					},
					Err(e) => panic!("VIOL C16 garbage-read: {what} key {k}: {e}"),
				},
				Err(e) => panic!("VIOL C16 read-failed: {what}: get of key {k} returned {e} with the fault lifted"),
			}
		}
		m
	};
	let norm = |m: BTreeMap<u8, Option<u32>>| -> BTreeMap<u8, Option<u32>> { m.into_iter().filter(|(_, v)| v.is_some()).collect() };
	let live = read_all(&db, "after the failure");
	let want = norm(model_at(accepted));
	if live != want {
		panic!("VIOL C16 read-mismatch: after the I/O failure the keys read {live:?}, the accepted commits give {want:?} (accepted {accepted}, background error {failed})");
	}
	// the fault persists through shutdown in half of the executions
	let fault_during_shutdown = rng.gen_bool(0.5);
	if fault_during_shutdown {
		parity_db::set_number_of_allowed_io_operations(0);
	}
	db.verif_shutdown();
	let order = [2usize, 1, 0, 3];
	let mut ws = workers;
	for i in order {
		if let Some(h) = ws[i].take() {
			if let Err(e) = h.join() {
				parity_db::set_number_of_allowed_io_operations(usize::MAX);
				std::panic::resume_unwind(e);
			}
		}
	}
	// an error that was on its way when `failed` was sampled has been stored by now
	let failed = failed || db.verif_has_bg_err() || fault_during_shutdown;
	let db = match Arc::try_unwrap(db) {
		Ok(db) => db,
		Err(_) => panic!("VIOL C15 handle-leaked: a worker kept a reference to the database"),
	};
	drop(db);
	parity_db::set_number_of_allowed_io_operations(usize::MAX);
	let db = match Db::open(&o) {
		Ok(db) => db,
		Err(e) => panic!("VIOL C16 reopen-failed: open after the fault was gone returned {e}"),
	};
	let got = read_all(&db, "after reopen");
	drop(db);
	let floor = std::cmp::min(synced_floor, accepted);
	let upper = if failed { accepted } else { accepted };
	let hit = (0..=upper).rev().find(|j| norm(model_at(*j)) == got);
	match hit {
		None => panic!("VIOL C16 not-a-prefix: after reopen the keys read {got:?}, which is no prefix of the {accepted} accepted transactions {:?}", txs.iter().take(accepted).map(|t| t.writes.iter().map(|w| (w.0, w.1.is_some())).collect::<Vec<_>>()).collect::<Vec<_>>()),
		Some(j) if j < floor && norm(model_at(floor)) != got => panic!(
			"VIOL C16 synced-commit-lost: after reopen the state is that of the first {j} transactions; {floor} had been applied from a synced log before the fault was armed"
		),
		Some(j) => {
			if !failed && j < accepted {
				panic!("VIOL C16 lost-without-error: no error was reported anywhere, yet after drop and reopen only {j} of {accepted} accepted transactions are present");
			}
		},
	}
	let mut hh = fnv(0, &[col_kind, always_flush as u8, nkeys, accepted as u8, failed as u8, allowed as u8]);
	let h = hist.lock().unwrap();
	for t in &h.txs {
		hh = fnv(hh, &t.inv.to_le_bytes());
		hh = fnv(hh, &t.ret.to_le_bytes());
	}
	crate::STEPS_HINT.fetch_add(stamp.load(Ordering::Relaxed), Ordering::Relaxed);
	note_history(hh, || {
		json!({
			"scenario": "ioerr (threads)", "column": (["hash", "btree"][col_kind as usize]), "always_flush": always_flush,
			"file_operations_allowed_after_arming": allowed, "accepted_transactions": accepted, "planned_transactions": ntx,
			"worker_stopped_with_error": failed, "applied_before_arming": synced_floor, "recovered_prefix": hit,
		})
	});
}
