//! Scenarios executed under shuttle. Everything random is drawn from shuttle::rand so that a
//! schedule string replays the workload as well.

use crate::{fresh_dir, probe};
use parity_db::{ColumnOptions, Db, Error, Options};
use serde_json::{json, Value as J};
use shuttle::rand::Rng;
use shuttle::sync::{Arc, Mutex};
use shuttle::thread;
use std::collections::{BTreeMap, HashSet};
use std::sync::atomic::{AtomicU64, AtomicUsize, Ordering};

static SAMPLES: std::sync::Mutex<Vec<J>> = std::sync::Mutex::new(Vec::new());
static HISTORIES: std::sync::Mutex<Option<HashSet<u64>>> = std::sync::Mutex::new(None);

pub fn take_samples() -> Vec<J> {
	SAMPLES.lock().map(|s| s.clone()).unwrap_or_default()
}

pub fn distinct_histories() -> u64 {
	HISTORIES.lock().map(|h| h.as_ref().map_or(0, |s| s.len() as u64)).unwrap_or(0)
}

fn note_history(h: u64, sample: impl FnOnce() -> J) {
	if let Ok(mut g) = HISTORIES.lock() {
		let set = g.get_or_insert_with(HashSet::new);
		if set.len() < 2_000_000 {
			set.insert(h);
		}
	}
	if let Ok(mut s) = SAMPLES.lock() {
		if s.len() < 3 {
			s.push(sample());
		}
	}
}

fn fnv(mut h: u64, b: &[u8]) -> u64 {
	if h == 0 {
		h = 0xcbf2_9ce4_8422_2325;
	}
	for x in b {
		h ^= *x as u64;
		h = h.wrapping_mul(0x0000_0100_0000_01B3);
	}
	h
}

pub fn run(scenario: &'static str) {
	match scenario {
		"vis" => pipe(Mode::Vis),
		"live" => pipe(Mode::Live),
		"drop" => pipe(Mode::Drop),
		"order" => pipe(Mode::Order),
		"lock" => lock_scenario(),
		"treelock" => treelock(),
		_ => pipe(Mode::Vis),
	}
}

#[derive(Clone, Copy, PartialEq, Eq, Debug)]
enum Mode {
	Vis,
	Live,
	Drop,
	/// Like Live, with the default syncing options and one log file per record: the ordering
	/// clause of C12 (tables flushed before a log is reclaimed) under thread interleavings.
	Order,
}

const VALUE_LENS: [usize; 8] = [9, 20, 30, 33, 60, 200, 1000, 5000];

/// value = [tx index: 4][key index: 1][filler...]
fn make_value(tx: u32, key: u8, len: usize) -> Vec<u8> {
	let mut v = vec![0u8; len.max(5)];
	v[..4].copy_from_slice(&tx.to_le_bytes());
	v[4] = key;
	for (i, b) in v.iter_mut().enumerate().skip(5) {
		*b = (tx as usize * 31 + i) as u8;
	}
	v
}

fn decode_value(v: &[u8], key: u8) -> Result<u32, String> {
	if v.len() < 5 {
		return Err(format!("value of {} bytes is too short", v.len()))
	}
	let tx = u32::from_le_bytes(v[..4].try_into().unwrap());
	if v[4] != key {
		return Err(format!("value belongs to key {} not {}", v[4], key))
	}
	for (i, b) in v.iter().enumerate().skip(5) {
		if *b != (tx as usize * 31 + i) as u8 {
			return Err(format!("value of tx {tx} is corrupted at byte {i}"))
		}
	}
	Ok(tx)
}

fn key_bytes(kind: u8, k: u8) -> Vec<u8> {
	match kind {
		// uniform column with zero salt: identity hash, exactly 32 bytes; all keys share the
		// first two bytes (one index page)
		2 => {
			let mut key = vec![0xABu8; 32];
			// a low page number: an index rebuild collects this page early in its scan and stays
			// in flight while it walks the rest of the index
			key[0] = 0;
			key[1] = 3;
			key[2] = k.wrapping_mul(37);
			key[3] = k;
			key[31] = k;
			key
		},
		_ => vec![b'k', k],
	}
}

struct Hist {
	/// per tx (1-based): (start stamp, end stamp, keys written)
	txs: Vec<(u64, u64, Vec<u8>)>,
}

fn pipe(mode: Mode) {
	let dir = fresh_dir();
	let mut rng = shuttle::rand::thread_rng();
	let col_kind: u8 = rng.gen_range(0..3); // 0 hash, 1 btree, 2 uniform zero-salt
	let always_flush = mode == Mode::Order || rng.gen_bool(0.7);
	let nkeys: u8 = rng.gen_range(2..6);
	let ntx: u32 = match mode {
		Mode::Vis => rng.gen_range(2..9),
		_ => rng.gen_range(1..14),
	};
	let nreaders: usize = match mode {
		Mode::Vis => rng.gen_range(1..4),
		Mode::Live | Mode::Order => rng.gen_range(0..2),
		Mode::Drop => 0,
	};
	// index growth under concurrent reads: one transaction also writes 66 filler keys of the same
	// index page, so that the page overflows and the log worker rebuilds the index while readers
	// (which then read for much longer, with pauses) are active
	let growth = col_kind == 2 && rng.gen_ratio(1, 5);
	const FILL0: u8 = 100;
	const NFILL: u8 = 66;
	let reads_per: usize = if growth { rng.gen_range(20..90) } else { rng.gen_range(2..12) };
	let sync = mode == Mode::Order || rng.gen_bool(0.5);
	// the ordering monitor listens in every mode that syncs its tables
	crate::order::arm(sync);
	// stalled-thread fault: one thread (a worker, the committer or a reader) is descheduled for a
	// long time at one of its lock acquisitions
	loom::stall::clear();
	if rng.gen_bool(0.5) {
		let role = rng.gen_range(0..6u32);
		let at = if rng.gen_bool(0.5) { rng.gen_range(1..60u32) } else { rng.gen_range(1..600u32) };
		let len = *[30u32, 200, 1000, 4000].get(rng.gen_range(0..4usize)).unwrap();
		loom::stall::plan(role, at, len);
		probe("stall_planned");
	}
	let mut o = Options::with_columns(std::path::Path::new(&dir), 1);
	o.columns[0] = ColumnOptions { btree_index: col_kind == 1, uniform: col_kind == 2, ..Default::default() };
	o.salt = Some(if col_kind == 2 { [0u8; 32] } else { [7u8; 32] });
	o.sync_wal = sync;
	o.sync_data = sync;
	o.stats = false;
	o.with_background_thread = false;
	o.always_flush = always_flush;
	let db = match Db::open_or_create(&o) {
		Ok(db) => Arc::new(db),
		Err(e) => panic!("VIOL C15 open-failed: {e}"),
	};
	let min_log: u64 = if always_flush { 0 } else { 64 * 1024 * 1024 };
	let stamp = Arc::new(AtomicU64::new(1));
	let hist = Arc::new(Mutex::new(Hist { txs: Vec::new() }));
	// plan transactions up front (deterministic from shuttle::rand)
	let mut plan: Vec<Vec<(u8, usize)>> = Vec::new();
	for _ in 0..ntx {
		let n = rng.gen_range(1..=std::cmp::min(4, nkeys as usize));
		let mut keys: Vec<u8> = (0..nkeys).collect();
		let mut tx = Vec::new();
		for _ in 0..n {
			let i = rng.gen_range(0..keys.len());
			let k = keys.remove(i);
			tx.push((k, VALUE_LENS[rng.gen_range(0..VALUE_LENS.len())]));
		}
		plan.push(tx);
	}
	if growth {
		let j = rng.gen_range(0..plan.len());
		for f in 0..NFILL {
			plan[j].push((FILL0 + f, 9));
		}
		probe("growth_variant");
	}
	let big_tx: bool = mode == Mode::Live && rng.gen_ratio(1, 40);
	// Rarely: fill the commit queue beyond its 16 MiB limit so that the committer is throttled,
	// then let a worker "fail" (store_err) at a scheduler-chosen moment: the blocked commit call
	// must return (with a background error), shutdown must still terminate.
	let throttle_then_fail: bool = mode == Mode::Live && !big_tx && rng.gen_ratio(1, 25);
	// ... in half of these the log worker is the one that died: it never runs, nothing drains
	let dead_log_worker = throttle_then_fail && rng.gen_bool(0.5);
	let mut workers: Vec<Option<thread::JoinHandle<()>>> = Vec::new();
	// same order in which open_inner spawns them: commit, flush, log, cleanup
	for w in [0u8, 1, 2, 3] {
		if w == 2 && dead_log_worker {
			workers.push(None);
			continue
		}
		let d = db.clone();
		workers.push(Some(thread::spawn(move || {
			loom::stall::set_role(w as u32);
			d.verif_run_worker(w, min_log)
		})));
	}
	let committer = {
		let db = db.clone();
		let stamp = stamp.clone();
		let hist = hist.clone();
		let plan = plan.clone();
		thread::spawn(move || {
			loom::stall::set_role(4);
			let mut rng = shuttle::rand::thread_rng();
			for (i, tx) in plan.iter().enumerate() {
				let t = (i + 1) as u32;
				let ops: Vec<(u8, Vec<u8>, Option<Vec<u8>>)> = tx
					.iter()
					.map(|(k, len)| {
						let len = if *k >= 100 {
							9
						} else if (big_tx && i == 0) || throttle_then_fail {
							9 * 1024 * 1024
						} else {
							*len
						};
						(0u8, key_bytes(col_kind, *k), Some(make_value(t, *k, len)))
					})
					.collect();
				let s = stamp.fetch_add(1, Ordering::SeqCst);
				hist.lock().unwrap().txs.push((s, u64::MAX, tx.iter().map(|x| x.0).collect()));
				if let Err(e) = db.commit(ops) {
					if throttle_then_fail && matches!(e, Error::Background(_)) {
						// refused after the injected worker failure: that is the specified outcome
						hist.lock().unwrap().txs.pop();
						crate::probe("commit_refused_after_worker_failure");
						return
					}
					panic!("VIOL C15 commit-failed: commit {t} returned {e}");
				}
				let e = stamp.fetch_add(1, Ordering::SeqCst);
				hist.lock().unwrap().txs[i].1 = e;
				if rng.gen_bool(0.4) {
					thread::yield_now();
				}
			}
		})
	};
	let mut readers = Vec::new();
	for ri in 0..nreaders {
		let db = db.clone();
		let stamp = stamp.clone();
		let hist = hist.clone();
		readers.push(thread::spawn(move || {
			loom::stall::set_role(5);
			let mut rng = shuttle::rand::thread_rng();
			let mut max_seen: u32 = 0;
			let mut log: Vec<(u64, u64, u8, u32)> = Vec::new();
			for _ in 0..reads_per {
				if growth {
					// plain switch points (a yield would drop the reader to the lowest PCT priority)
					for _ in 0..rng.gen_range(0..400) {
						thread::sleep(std::time::Duration::ZERO);
					}
				}
				let k: u8 = if growth && rng.gen_bool(0.6) { FILL0 + rng.gen_range(0..NFILL) } else { rng.gen_range(0..nkeys) };
				let key = key_bytes(col_kind, k);
				let inv = stamp.fetch_add(1, Ordering::SeqCst);
				let got = db.get(0, &key);
				let ret = stamp.fetch_add(1, Ordering::SeqCst);
				let tv = match got {
					Ok(None) => 0u32,
					Ok(Some(v)) => match decode_value(&v, k) {
						Ok(t) => t,
						Err(e) => panic!("VIOL C05 garbage-read: reader {ri} key {k}: {e}"),
					},
					Err(e) => panic!("VIOL C05 read-error: get returned {e}"),
				};
				let h = hist.lock().unwrap();
				let writes = |t: u32| -> bool { t >= 1 && (t as usize) <= h.txs.len() && h.txs[t as usize - 1].2.contains(&k) };
				// last transaction writing k that completed before the read began
				let lower = (1..=h.txs.len() as u32).rev().find(|t| writes(*t) && h.txs[*t as usize - 1].1 < inv).unwrap_or(0);
				// last transaction writing k that had started before the read returned
				let upper = (1..=h.txs.len() as u32).rev().find(|t| writes(*t) && h.txs[*t as usize - 1].0 < ret).unwrap_or(0);
				if tv != 0 && !writes(tv) {
					panic!("VIOL C05 misattributed-read: reader {ri} key {k} returned a value of transaction {tv} which did not write it");
				}
				if tv < lower {
					panic!("VIOL C05 stale-read: reader {ri} key {k} returned transaction {tv} but transaction {lower} writing it had completed before the read began (invoke {inv}, its return {})", h.txs[lower as usize - 1].1);
				}
				if tv > upper {
					panic!("VIOL C05 future-read: reader {ri} key {k} returned transaction {tv} which had not started when the read returned");
				}
				// once T was observed, keys written by T never show anything older than T
				let floor = (1..=max_seen).rev().find(|t| writes(*t)).unwrap_or(0);
				if tv < floor {
					panic!("VIOL C05 went-back-in-time: reader {ri} had observed transaction {max_seen}; key {k} (written by transaction {floor}) now reads transaction {tv}");
				}
				drop(h);
				max_seen = std::cmp::max(max_seen, tv);
				log.push((inv, ret, k, tv));
			}
			log
		}));
	}
	if throttle_then_fail {
		// shutdown in error state reclaims logs without flushing tables: outside C12
		crate::order::disarm();
		for _ in 0..rng.gen_range(0..60) {
			thread::yield_now();
		}
		db.verif_store_err(Error::InvalidInput("injected worker failure".into()));
		probe("worker_failure_injected");
	}
	if let Err(e) = committer.join() {
		std::panic::resume_unwind(e);
	}
	let mut rlogs = Vec::new();
	for r in readers {
		match r.join() {
			Ok(l) => rlogs.push(l),
			Err(e) => std::panic::resume_unwind(e),
		}
	}
	// bounded liveness: without further client activity every accepted commit gets logged (and,
	// when logs are always flushed, applied); shuttle's step bound turns a stall into a failure
	if mode != Mode::Drop && !throttle_then_fail {
		let mut spins = 0u64;
		loop {
			let c = db.verif_pipeline_counts();
			let logged = c.0 == 0;
			let applied = !always_flush || (!c.2 && c.4 <= 0);
			if logged && applied {
				break
			}
			if db.verif_has_bg_err() {
				panic!("VIOL C15 background-error: a worker stored an error without any injected fault");
			}
			spins += 1;
			thread::yield_now();
			if spins > 100_000 {
				panic!("VIOL C15 no-progress: pipeline not drained after {spins} yields of the idle client (queued {}, files to read {}, logged bytes {})", c.0, c.2, c.4);
			}
		}
		probe("drained_without_client_activity");
	} else if rng.gen_bool(0.5) {
		thread::yield_now();
	}
	if loom::stall::FIRED.swap(0, Ordering::Relaxed) > 0 {
		probe("stall_fired");
	}
	// shutdown at this (scheduler-chosen) moment; join in the order drop_inner does
	db.verif_shutdown();
	let order = [2usize, 1, 0, 3];
	let mut ws: Vec<Option<thread::JoinHandle<()>>> = workers;
	for i in order {
		if let Some(h) = ws[i].take() {
			if let Err(e) = h.join() {
				std::panic::resume_unwind(e);
			}
		}
	}
	let db = match Arc::try_unwrap(db) {
		Ok(db) => db,
		Err(_) => panic!("VIOL C15 handle-leaked: a worker kept a reference to the database"),
	};
	drop(db);
	if throttle_then_fail {
		// error state: only what was synced is promised (C16); nothing more to check here
		return
	}
	// reopen without workers: everything whose commit returned must be there
	o.with_background_thread = false;
	let db = match Db::open(&o) {
		Ok(db) => db,
		Err(e) => panic!("VIOL C03 reopen-failed: {e}"),
	};
	let mut model: BTreeMap<u8, u32> = BTreeMap::new();
	for (i, tx) in plan.iter().enumerate() {
		for (k, _) in tx {
			model.insert(*k, (i + 1) as u32);
		}
	}
	let mut all_keys: Vec<u8> = (0..nkeys).collect();
	if growth {
		all_keys.extend(FILL0..FILL0 + NFILL);
	}
	for k in all_keys {
		let got = db.get(0, &key_bytes(col_kind, k));
		let tv = match got {
			Ok(None) => 0,
			Ok(Some(v)) => decode_value(&v, k).unwrap_or(u32::MAX),
			Err(e) => panic!("VIOL C03 read-error-after-reopen: {e}"),
		};
		let want = model.get(&k).cloned().unwrap_or(0);
		if tv != want {
			panic!("VIOL C03 lost-after-drop: key {k} reads transaction {tv} after drop+reopen, the last committed write is transaction {want} (mode {mode:?}, always_flush {always_flush})");
		}
	}
	drop(db);
	if crate::order::disarm() > 0 {
		probe("log_reclaimed_after_flush_checked");
	}
	// record the history (for distinctness and samples)
	let h = hist.lock().unwrap();
	let mut hh = fnv(0, &[col_kind, always_flush as u8, nkeys]);
	for t in &h.txs {
		hh = fnv(hh, &t.0.to_le_bytes());
		hh = fnv(hh, &t.1.to_le_bytes());
		hh = fnv(hh, &t.2);
	}
	for l in &rlogs {
		for e in l {
			hh = fnv(hh, &e.0.to_le_bytes());
			hh = fnv(hh, &e.1.to_le_bytes());
			hh = fnv(hh, &[e.2]);
			hh = fnv(hh, &e.3.to_le_bytes());
		}
	}
	crate::STEPS_HINT.fetch_add(stamp.load(Ordering::Relaxed), Ordering::Relaxed);
	note_history(hh, || {
		json!({
			"scenario": format!("{mode:?}"), "column": (["hash", "btree", "uniform-zero-salt"][col_kind as usize]),
			"always_flush": always_flush, "sync": sync,
			"transactions": h.txs.iter().enumerate().map(|(i, t)| json!({"tx": i + 1, "start": t.0, "end": t.1, "keys": t.2})).collect::<Vec<_>>(),
			"reads": rlogs.iter().map(|l| l.iter().map(|e| json!({"invoke": e.0, "return": e.1, "key": e.2, "saw_tx": e.3})).collect::<Vec<_>>()).collect::<Vec<_>>(),
		})
	});
}

// ---------------------------------------------------------------------------------------------
// C18: at most one live handle per directory

fn lock_scenario() {
	let dir = fresh_dir();
	let mut rng = shuttle::rand::thread_rng();
	let ntasks: usize = rng.gen_range(2..5);
	let rounds: usize = rng.gen_range(1..4);
	let mut o = Options::with_columns(std::path::Path::new(&dir), 1);
	o.salt = Some([3u8; 32]);
	o.stats = false;
	o.with_background_thread = false;
	// create the database and leave something to replay for whoever opens next
	{
		let db = Db::open_or_create(&o).unwrap();
		db.commit(vec![(0u8, b"seed".to_vec(), Some(b"value".to_vec()))]).unwrap();
		drop(db);
	}
	let live = Arc::new(AtomicUsize::new(0));
	let opened = Arc::new(AtomicUsize::new(0));
	let refused = Arc::new(AtomicUsize::new(0));
	let dropping = Arc::new(AtomicUsize::new(0));
	let mut tasks = Vec::new();
	for t in 0..ntasks {
		let o = o.clone();
		let live = live.clone();
		let dropping = dropping.clone();
		let opened = opened.clone();
		let refused = refused.clone();
		tasks.push(thread::spawn(move || {
			let mut rng = shuttle::rand::thread_rng();
			// a task keeps trying (with pauses of a few switch points) until it has held the
			// database `rounds` times: attempts are spread over the whole life of the other
			// handles, including their shutdown
			let mut r = 0usize;
			let mut attempts = 0usize;
			while r < rounds && attempts < 1500 {
				attempts += 1;
				if dropping.load(Ordering::SeqCst) > 0 {
					probe("open_attempted_while_another_handle_was_being_dropped");
				}
				match Db::open(&o) {
					Ok(db) => {
						let n = live.fetch_add(1, Ordering::SeqCst) + 1;
						if n != 1 {
							panic!("VIOL C18 two-live-handles: task {t} opened the directory while {} other handle(s) were alive", n - 1);
						}
						opened.fetch_add(1, Ordering::SeqCst);
						let _ = db.commit(vec![(0u8, vec![b'a', t as u8, r as u8], Some(vec![t as u8; 40]))]);
						if rng.gen_bool(0.6) {
							thread::yield_now();
						}
						match db.get(0, b"seed") {
							Ok(Some(v)) if v == b"value" => {},
							other => panic!("VIOL C18 data-lost: seed key reads {:?}", other.map(|o| o.map(|v| v.len()))),
						}
						// no scheduling point between the end of drop and the decrement
						dropping.fetch_add(1, Ordering::SeqCst);
						drop(db);
						dropping.fetch_sub(1, Ordering::SeqCst);
						live.fetch_sub(1, Ordering::SeqCst);
						r += 1;
					},
					Err(Error::Locked(_)) => {
						refused.fetch_add(1, Ordering::SeqCst);
						if live.load(Ordering::SeqCst) == 0 {
							// legal only while another open/drop is in progress; the flock is
							// released before `live` is decremented, never the other way round
						}
					},
					Err(e) => panic!("VIOL C18 wrong-error: open of a directory that is in use failed with {e} instead of Locked"),
				}
				for _ in 0..rng.gen_range(0..40) {
					thread::sleep(std::time::Duration::ZERO);
				}
				if rng.gen_bool(0.3) {
					thread::yield_now();
				}
			}
		}));
	}
	for t in tasks {
		if let Err(e) = t.join() {
			std::panic::resume_unwind(e);
		}
	}
	// after every handle is dropped the directory can be opened again
	match Db::open(&o) {
		Ok(db) => drop(db),
		Err(e) => panic!("VIOL C18 not-reopenable: open after all handles were dropped failed with {e}"),
	}
	if refused.load(Ordering::SeqCst) > 0 {
		probe("open_refused_with_locked");
	}
	let h = fnv(fnv(0, &[ntasks as u8, rounds as u8]), &[opened.load(Ordering::SeqCst) as u8, refused.load(Ordering::SeqCst) as u8]);
	note_history(h, || json!({"scenario": "lock", "tasks": ntasks, "rounds": rounds, "opened": opened.load(Ordering::SeqCst), "refused_locked": refused.load(Ordering::SeqCst)}));
}

// ---------------------------------------------------------------------------------------------
// C11 (thread part): a tree stays complete and unchanged while a reader lock is held

fn treelock() {
	use parity_db::{NewNode, NodeRef, Operation};
	let dir = fresh_dir();
	let mut rng = shuttle::rand::thread_rng();
	let direct = rng.gen_bool(0.5);
	// half of the executions use reference-counted roots: every tree is referenced once more
	// after its insertion and has to be dereferenced twice
	let rc_roots = rng.gen_bool(0.5);
	let mut o = Options::with_columns(std::path::Path::new(&dir), 1);
	o.columns[0] = ColumnOptions {
		multitree: true,
		allow_direct_node_access: direct,
		preimage: rc_roots,
		ref_counted: rc_roots,
		..Default::default()
	};
	o.salt = Some([5u8; 32]);
	o.stats = false;
	o.with_background_thread = false;
	o.always_flush = true;
	let db = Arc::new(Db::open_or_create(&o).unwrap());
	let mut workers = Vec::new();
	for w in [0u8, 1, 2, 3] {
		let d = db.clone();
		workers.push(thread::spawn(move || d.verif_run_worker(w, 0)));
	}
	let ntrees: u8 = rng.gen_range(2..5);
	fn tree(id: u8, shared: Option<u64>) -> NewNode {
		let mut children = vec![
			NodeRef::New(NewNode { data: vec![id, 1, 1, 1], children: vec![NodeRef::New(NewNode { data: vec![id, 2, 2], children: vec![] })] }),
			NodeRef::New(NewNode { data: vec![id; 40], children: vec![] }),
		];
		if let Some(a) = shared {
			children.push(NodeRef::Existing(a));
		}
		NewNode { data: vec![id, 0], children }
	}
	fn digest(r: &dyn parity_db::TreeReader) -> Result<u64, String> {
		fn walk(r: &dyn parity_db::TreeReader, data: &[u8], children: &[u64], d: u32) -> Result<u64, String> {
			let mut h = fnv(0, data);
			if d > 8 {
				return Err("too deep".into())
			}
			for c in children {
				match r.get_node(*c) {
					Ok(Some((nd, nc))) => h = fnv(h, &walk(r, &nd, &nc, d + 1)?.to_le_bytes()),
					Ok(None) => return Err(format!("node {c} is missing")),
					Err(e) => return Err(format!("get_node failed: {e}")),
				}
			}
			Ok(h)
		}
		match r.get_root() {
			Ok(Some((d, c))) => walk(r, &d, &c, 0),
			Ok(None) => Err("root is gone".into()),
			Err(e) => Err(format!("get_root failed: {e}")),
		}
	}
	// writer: inserts successor trees that share the first child of the previous one; the pruner
	// dereferences every tree but the last one
	let inserted = Arc::new(AtomicUsize::new(0));
	// number of DereferenceTree commits that have returned, per tree
	let derefs: Arc<Vec<AtomicUsize>> = Arc::new((0..8).map(|_| AtomicUsize::new(0)).collect());
	// number of DereferenceTree commit calls that have begun, per tree
	let derefs_started: Arc<Vec<AtomicUsize>> = Arc::new((0..8).map(|_| AtomicUsize::new(0)).collect());
	// In some executions the pruner does not wait for the successor: a tree is dereferenced as soon
	// as it is there, while the writer (holding the read lock of that tree, as a client must when
	// it reuses nodes) inserts the successor that shares its first child.
	let early_prune = rc_roots && rng.gen_bool(0.5);
	// does the last tree share a node with its predecessor? (set by the writer)
	let last_shares = Arc::new(AtomicUsize::new(0));
	let writer = {
		let db = db.clone();
		let inserted = inserted.clone();
		let derefs_started = derefs_started.clone();
		let last_shares = last_shares.clone();
		thread::spawn(move || {
			let mut prev: Option<u64> = None;
			for t in 0..ntrees {
				let key = vec![b't', t];
				if early_prune && t > 0 {
					// reuse a node of the predecessor only under its read lock, and only if its
					// last dereference had not been submitted when the lock was obtained
					let pkey = vec![b't', t - 1];
					let mut done = false;
					if let Ok(Some(r)) = db.get_tree(0, &pkey) {
						let g = r.read();
						let final_submitted = derefs_started[(t - 1) as usize].load(Ordering::SeqCst) >= 2;
						if !final_submitted {
							if let Ok(Some((_d, c))) = g.get_root() {
								if let Some(a) = c.first().cloned() {
									if let Err(e) = db.commit_changes(vec![(0u8, Operation::InsertTree(key.clone(), tree(t, Some(a))))]) {
										panic!("VIOL C11 insert-failed: {e}");
									}
									done = true;
									probe("successor_inserted_under_predecessor_lock");
									if t + 1 == ntrees {
										last_shares.store(1, Ordering::SeqCst);
									}
									for _ in 0..4 {
										thread::yield_now();
									}
								}
							}
						}
						drop(g);
					}
					if !done {
						if let Err(e) = db.commit_changes(vec![(0u8, Operation::InsertTree(key.clone(), tree(t, None)))]) {
							panic!("VIOL C11 insert-failed: {e}");
						}
					}
					if let Err(e) = db.commit_changes(vec![(0u8, Operation::ReferenceTree(key.clone()))]) {
						panic!("VIOL C11 reference-failed: {e}");
					}
					inserted.fetch_add(1, Ordering::SeqCst);
					thread::yield_now();
					continue
				}
				if t + 1 == ntrees && prev.is_some() {
					last_shares.store(1, Ordering::SeqCst);
				}
				if let Err(e) = db.commit_changes(vec![(0u8, Operation::InsertTree(key.clone(), tree(t, prev)))]) {
					panic!("VIOL C11 insert-failed: {e}");
				}
				if rc_roots {
					if let Err(e) = db.commit_changes(vec![(0u8, Operation::ReferenceTree(key.clone()))]) {
						panic!("VIOL C11 reference-failed: {e}");
					}
				}
				inserted.fetch_add(1, Ordering::SeqCst);
				// learn the address of the first child for sharing
				if let Ok(Some(r)) = db.get_tree(0, &key) {
					let g = r.read();
					if let Ok(Some((_d, c))) = g.get_root() {
						prev = c.first().cloned();
					}
				}
				thread::yield_now();
			}
		})
	};
	let pruner = {
		let db = db.clone();
		let inserted = inserted.clone();
		let derefs = derefs.clone();
		let derefs_started = derefs_started.clone();
		thread::spawn(move || {
			let mut rng = shuttle::rand::thread_rng();
			let mut next = 0u8;
			let mut spins = 0;
			while next + 1 < ntrees && spins < 4000 {
				if (inserted.load(Ordering::SeqCst) as u8) > next + (if early_prune { 0 } else { 1 }) {
					let key = vec![b't', next];
					for _ in 0..(if rc_roots { 2 } else { 1 }) {
						derefs_started[next as usize].fetch_add(1, Ordering::SeqCst);
						if let Err(e) = db.commit_changes(vec![(0u8, Operation::DereferenceTree(key.clone()))]) {
							panic!("VIOL C11 dereference-failed: {e}");
						}
						derefs[next as usize].fetch_add(1, Ordering::SeqCst);
						for _ in 0..(if rng.gen_bool(0.5) { rng.gen_range(0..6) } else { rng.gen_range(20..80) }) {
							thread::yield_now();
						}
					}
					next += 1;
				} else {
					spins += 1;
					thread::yield_now();
				}
			}
		})
	};
	let nreaders: usize = rng.gen_range(1..3);
	let mut readers = Vec::new();
	for ri in 0..nreaders {
		let db = db.clone();
		let derefs = derefs.clone();
		let derefs_started = derefs_started.clone();
		readers.push(thread::spawn(move || {
			let mut rng = shuttle::rand::thread_rng();
			for round in 0..3 {
				// bias toward the tree that is dereferenced last (nothing is committed after it)
				let t: u8 = if rng.gen_bool(0.6) { ntrees.saturating_sub(2) } else { rng.gen_range(0..ntrees) };
				let key = vec![b't', t];
				// fetch the handle first, lock it some time later
				let mut reader = None;
				for _ in 0..40 {
					match db.get_tree(0, &key) {
						Ok(Some(r)) => {
							reader = Some(r);
							break
						},
						Ok(None) => thread::yield_now(),
						Err(e) => panic!("VIOL C11 get-tree-failed: {e}"),
					}
				}
				let Some(reader) = reader else { continue };
				for _ in 0..rng.gen_range(0..12) {
					thread::yield_now();
				}
				// sometimes the handle is kept unlocked until the first of two dereferences of
				// this tree has been committed (and had time to be processed)
				if rc_roots && t + 1 < ntrees && rng.gen_bool(0.4) {
					let mut waited = 0;
					// ... and processed: nothing is queued any more
					while (derefs[t as usize].load(Ordering::SeqCst) < 1 || db.verif_pipeline_counts().0 > 0) && waited < 600 {
						waited += 1;
						thread::yield_now();
					}
					for _ in 0..rng.gen_range(0..8) {
						thread::yield_now();
					}
					probe("handle_kept_unlocked_until_first_dereference");
				}
				let g = reader.read();
				// Had the last dereference of this tree already been submitted when the lock was
				// obtained? Then its removal may already have been planned by the log worker (the
				// check for held readers and the plan are not atomic with publishing the record):
				// known finding. Otherwise the lock precedes the dereference and must be honoured.
				let need_all = if rc_roots { 2 } else { 1 };
				let final_submitted = derefs_started[t as usize].load(Ordering::SeqCst) >= need_all;
				// the tree may already be gone when the lock is obtained; if it is there, it
				// must stay complete and unchanged until the guard is dropped
				let first = match digest(&**g) {
					Ok(d) => d,
					Err(_) => continue,
				};
				probe("tree_walked_under_lock");
				// in half of the rounds keep the lock until the pruner's dereference of this very
				// tree has been committed (so that it is processed while the tree is held)
				let wait_for_deref = rng.gen_bool(0.5) && t + 1 < ntrees;
				let need = if rc_roots { 2 } else { 1 };
				let mut waited = 0;
				while wait_for_deref && derefs[t as usize].load(Ordering::SeqCst) < need && waited < 600 {
					waited += 1;
					thread::yield_now();
				}
				if wait_for_deref && waited < 600 {
					probe("lock_held_across_dereference_commit");
				}
				for _ in 0..rng.gen_range(2..10) {
					thread::yield_now();
					match digest(&**g) {
						Ok(d) if d == first => {},
						Ok(_) => panic!("VIOL C11 locked-tree-changed: reader {ri} round {round}: tree {t} changed while its reader lock was held"),
						Err(e) if final_submitted => panic!("VIOL C11 locked-after-removal-was-planned: reader {ri} round {round}: tree {t}: {e} while its reader lock was held; the lock was obtained after the last dereference of this tree had been submitted"),
						Err(e) => panic!("VIOL C11 locked-tree-invalidated: reader {ri} round {round}: tree {t}: {e} while its reader lock was held (lock obtained before the last dereference was submitted)"),
					}
				}
			}
		}));
	}
	for h in [writer, pruner] {
		if let Err(e) = h.join() {
			std::panic::resume_unwind(e);
		}
	}
	for r in readers {
		if let Err(e) = r.join() {
			std::panic::resume_unwind(e);
		}
	}
	// every reader lock is released: the postponed removals must now complete without any
	// further client activity (all trees but the last one were dereferenced by the pruner)
	let mut spins = 0u64;
	loop {
		let c = db.verif_pipeline_counts();
		let mut left = Vec::new();
		if c.0 == 0 {
			for t in 0..ntrees.saturating_sub(1) {
				match db.get_tree(0, &[b't', t]) {
					Ok(None) => {},
					Ok(Some(_)) => left.push(t),
					Err(e) => panic!("VIOL C11 get-tree-failed: {e}"),
				}
			}
			if left.is_empty() {
				break
			}
		}
		spins += 1;
		thread::yield_now();
		if spins > 60_000 {
			let d: Vec<usize> = derefs.iter().take(ntrees as usize).map(|x| x.load(Ordering::SeqCst)).collect();
			panic!("VIOL C11 postponed-removal-never-completes: after all reader locks were released and with no further commits, {} commit(s) are still queued and trees {:?} are still present (ref-counted roots: {rc_roots}, trees {ntrees}, dereference commits returned per tree {:?})", c.0, left, d);
		}
	}
	probe("postponed_removals_completed");
	// the last tree was never dereferenced: it must be complete, including the node it reuses
	{
		fn leaf(d: Vec<u8>) -> (Vec<u8>, Vec<(Vec<u8>, Vec<(Vec<u8>, Vec<()>)>)>) {
			(d, Vec::new())
		}
		let _ = leaf;
		// digest of the expected shape, computed the way `digest` walks the stored tree
		fn node(data: &[u8], children: &[u64]) -> u64 {
			let mut h = fnv(0, data);
			for c in children {
				h = fnv(h, &c.to_le_bytes());
			}
			h
		}
		let first_child = |id: u8| node(&[id, 1, 1, 1], &[node(&[id, 2, 2], &[])]);
		let t = ntrees - 1;
		let mut kids = vec![first_child(t), node(&vec![t; 40], &[])];
		if last_shares.load(Ordering::SeqCst) == 1 {
			kids.push(first_child(t - 1));
		}
		let want = node(&[t, 0], &kids);
		match db.get_tree(0, &[b't', t]) {
			Ok(Some(r)) => {
				let g = r.read();
				match digest(&**g) {
					Ok(d) if d == want => probe("last_tree_complete"),
					Ok(_) => panic!("VIOL C11 successor-tree-changed: the last tree (never dereferenced, reusing a node of its predecessor: {}) does not read back as inserted", last_shares.load(Ordering::SeqCst) == 1),
					Err(e) => panic!("VIOL C11 successor-tree-invalid: the last tree (never dereferenced, reusing a node of its predecessor: {}) lost a node: {e}", last_shares.load(Ordering::SeqCst) == 1),
				}
			},
			Ok(None) => panic!("VIOL C11 successor-tree-invalid: the last tree (never dereferenced) is gone"),
			Err(e) => panic!("VIOL C11 get-tree-failed: {e}"),
		}
	}
	db.verif_shutdown();
	let mut ws: Vec<Option<thread::JoinHandle<()>>> = workers.into_iter().map(Some).collect();
	for i in [2usize, 1, 0, 3] {
		if let Some(h) = ws[i].take() {
			if let Err(e) = h.join() {
				std::panic::resume_unwind(e);
			}
		}
	}
	if let Ok(db) = Arc::try_unwrap(db) {
		drop(db);
	}
	note_history(fnv(0, &[ntrees, nreaders as u8, direct as u8]) ^ crate::EXECUTIONS.load(Ordering::Relaxed), || {
		json!({"scenario": "treelock", "trees": ntrees, "readers": nreaders})
	});
}
