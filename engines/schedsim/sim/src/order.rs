//! C12 under real thread interleavings: the ordering clause "no log file is truncated before all
//! table changes it describes were flushed". Events come from parity-db's own debug log lines
//! (a log file reaches its end while being applied; a log file is reclaimed) and from the two
//! named points around the table flush of a reclamation pass (hook `verif::yield_point`).
//!
//! Invariant: when log file N is reclaimed, the table flush of that reclamation pass began after
//! N had been applied to its end (N's table writes all precede the flush).
use std::collections::HashMap;
use std::sync::Mutex;

struct State {
	armed: bool,
	seq: u64,
	applied_at: HashMap<u32, u64>,
	flush_begin: u64,
	flush_end: u64,
	checks: u64,
}

static STATE: Mutex<Option<State>> = Mutex::new(None);

pub fn arm(on: bool) {
	let mut g = STATE.lock().unwrap_or_else(|e| e.into_inner());
	*g = Some(State { armed: on, seq: 0, applied_at: HashMap::new(), flush_begin: 0, flush_end: 0, checks: 0 });
}

pub fn disarm() -> u64 {
	let mut g = STATE.lock().unwrap_or_else(|e| e.into_inner());
	let c = g.as_ref().map_or(0, |s| s.checks);
	if let Some(s) = g.as_mut() {
		s.armed = false;
	}
	c
}

pub fn hook(name: &'static str) {
	let mut g = STATE.lock().unwrap_or_else(|e| e.into_inner());
	let Some(s) = g.as_mut() else { return };
	s.seq += 1;
	match name {
		"flush_tables:begin" => s.flush_begin = s.seq,
		"flush_tables:end" => s.flush_end = s.seq,
		_ => {},
	}
}

/// Called by the logger with every parity-db debug line.
pub fn line(t: &str) {
	if std::thread::panicking() {
		return
	}
	let mut viol: Option<String> = None;
	{
		let mut g = STATE.lock().unwrap_or_else(|e| e.into_inner());
		let Some(s) = g.as_mut() else { return };
		if !s.armed {
			return
		}
		if let Some(id) = t.strip_prefix("Read: End of log ").and_then(|x| x.trim().parse::<u32>().ok()) {
			s.seq += 1;
			s.applied_at.insert(id, s.seq);
		} else if let Some(id) = t.strip_prefix("Cleaned: ").and_then(|x| x.trim().parse::<u32>().ok()) {
			s.seq += 1;
			if let Some(at) = s.applied_at.remove(&id) {
				s.checks += 1;
				if !(s.flush_begin > at && s.flush_end > s.flush_begin) {
					viol = Some(format!(
						"VIOL C12 reclaimed-before-flush: log file {id} was applied to its end at event {at} and reclaimed at event {}, but the table flush of that pass began at event {} (ended {}): table pages written for it may still be unflushed when the log is truncated",
						s.seq, s.flush_begin, s.flush_end
					));
					s.armed = false;
				}
			}
		}
	}
	if let Some(v) = viol {
		panic!("{v}");
	}
}
