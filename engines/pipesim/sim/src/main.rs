//! pipesim — single-threaded stage-schedule simulator for parity-db with an interposed disk.

mod adminops;
mod exec;
mod faultops;
mod gen;
mod gen2;
mod orchestrate;
mod prng;
mod simdisk;
mod structural;
mod treeops;
mod world;

use exec::{Exec, RunResult, Violation};
use std::sync::atomic::{AtomicU64, Ordering};
use std::sync::Mutex;
use world::*;

// ---------------------------------------------------------------------------------------------
// Counting logger: reach probes from the log facade. Never read by oracles.

pub const PROBE_PATTERNS: [(&str, &str); 16] = [
	("Started reindex for ref count", "reindex_refcount_started"),
	("Started reindex", "reindex_started"),
	("Creating reindex record", "reindex_batch"),
	("Dropping index", "reindex_drop_index"),
	("Completed reindex", "reindex_completed"),
	("Deferred commit", "commit_deferred"),
	("Waiting, queue size", "commit_throttled"),
	("Log sequence error", "log_sequence_error_at_open"),
	("Error reading log", "torn_record_discarded_at_open"),
	("Error validating log", "log_validation_error_at_open"),
	("Bad log header", "bad_log_header_at_open"),
	("Replaying database log", "log_replayed_at_open"),
	("Opened stale index", "stale_index_reopened"),
	("Missing table", "reindex_relaunched_at_replay"),
	("is too old", "record_for_dropped_index_at_replay"),
	("Replacing in a new table", "tier_move_on_overwrite"),
];

pub static PROBE_COUNTS: [AtomicU64; 16] = [
	AtomicU64::new(0), AtomicU64::new(0), AtomicU64::new(0), AtomicU64::new(0),
	AtomicU64::new(0), AtomicU64::new(0), AtomicU64::new(0), AtomicU64::new(0),
	AtomicU64::new(0), AtomicU64::new(0), AtomicU64::new(0), AtomicU64::new(0),
	AtomicU64::new(0), AtomicU64::new(0), AtomicU64::new(0), AtomicU64::new(0),
];

struct CountingLogger;

impl log::Log for CountingLogger {
	fn enabled(&self, m: &log::Metadata) -> bool {
		m.level() <= log::Level::Trace
	}
	fn log(&self, record: &log::Record) {
		use std::fmt::Write;
		let mut buf = SmallBuf { b: [0u8; 96], n: 0 };
		let _ = write!(buf, "{}", record.args());
		let s = std::str::from_utf8(&buf.b[..buf.n]).unwrap_or("");
		for (i, (pat, _)) in PROBE_PATTERNS.iter().enumerate() {
			if s.contains(pat) {
				PROBE_COUNTS[i].fetch_add(1, Ordering::Relaxed);
				break
			}
		}
		if s.starts_with("Deferred commit") {
			// (classification of what follows only; the message is not an oracle)
			exec::DEFERRAL_SEEN.store(true, Ordering::SeqCst);
		}
		if VERBOSE_LOG.load(Ordering::Relaxed) != 0 {
			simdisk::muted(|| eprintln!("[pdb {}] {}", record.level(), record.args()));
		}
	}
	fn flush(&self) {}
}

pub static VERBOSE_LOG: AtomicU64 = AtomicU64::new(0);

struct SmallBuf {
	b: [u8; 96],
	n: usize,
}

impl std::fmt::Write for SmallBuf {
	fn write_str(&mut self, s: &str) -> std::fmt::Result {
		let bytes = s.as_bytes();
		let room = self.b.len() - self.n;
		let mut take = std::cmp::min(room, bytes.len());
		while take > 0 && !s.is_char_boundary(take) {
			take -= 1;
		}
		self.b[self.n..self.n + take].copy_from_slice(&bytes[..take]);
		self.n += take;
		Ok(())
	}
}

static LOGGER: CountingLogger = CountingLogger;

// ---------------------------------------------------------------------------------------------
// One run

pub static LAST_PANIC: Mutex<String> = Mutex::new(String::new());

pub struct Outcome {
	pub result: RunResult,
	pub panicked: Option<String>,
	pub hung: bool,
	/// The run thread was blocked (no CPU use) for BLOCKED_WINDOW_SECS: in a single-threaded run
	/// nobody can wake it. The thread is leaked; the calling process should end soon.
	pub blocked: bool,
}

pub const BLOCKED_WINDOW_SECS: u64 = 20;
/// Index of the op the run thread is executing (for the report of a blocked run).
pub static CURRENT_OP: std::sync::atomic::AtomicUsize = std::sync::atomic::AtomicUsize::new(usize::MAX);

fn thread_cpu_ns(t: libc::pthread_t) -> Option<u64> {
	unsafe {
		let mut cid: libc::clockid_t = 0;
		if libc::pthread_getcpuclockid(t, &mut cid) != 0 {
			return None
		}
		let mut ts: libc::timespec = std::mem::zeroed();
		if libc::clock_gettime(cid, &mut ts) != 0 {
			return None
		}
		Some(ts.tv_sec as u64 * 1_000_000_000 + ts.tv_nsec as u64)
	}
}

pub const RUN_WALL_LIMIT_SECS: u64 = 1200;
/// One op that keeps the thread busy this long is reported as not returning (ordinary ops take
/// milliseconds, the heaviest seen a few seconds).
pub const OP_WALL_LIMIT_SECS: u64 = 180;
pub const RSS_LIMIT_BYTES: u64 = 6 << 30;
/// Current limit (lowered while minimising: a candidate that does not finish is just rejected).
pub static OP_LIMIT: std::sync::atomic::AtomicU64 = std::sync::atomic::AtomicU64::new(OP_WALL_LIMIT_SECS);

fn run_body(cfg: &RunCfg, ops: &[Op], base: &str) -> RunResult {
	let live = format!("{}/live0", base);
	simdisk::install(&live, cfg.disk_seed, base);
	simdisk::with(|d| {
		d.buggify = simdisk::Buggify { max_read: cfg.max_read, max_write: cfg.max_write, eintr_one_in: cfg.eintr_one_in };
		d.monitor = cfg.sync_wal && cfg.sync_data && cfg.scenario != "ioerr" && cfg.scenario != "logfuzz";
		d.keep_events = std::env::var("PIPESIM_DUMP").is_ok();
	});
	for c in PROBE_COUNTS.iter() {
		c.store(0, Ordering::Relaxed);
	}
	let mut ex = Exec::new(cfg, base);
	let mut executed = 0;
	if ex.open_initial() {
		for (i, op) in ops.iter().enumerate() {
			CURRENT_OP.store(i, Ordering::Relaxed);
			ex.exec_op(i, op);
			executed = i + 1;
			if ex.should_stop() || !ex.has_db() {
				break
			}
		}
		ex.finish();
	}
	for (i, (_, name)) in PROBE_PATTERNS.iter().enumerate() {
		let n = PROBE_COUNTS[i].load(Ordering::Relaxed);
		if n > 0 {
			ex.stats.probe_n(name, n);
		}
	}
	let disk = simdisk::uninstall().expect("disk");
	if let Ok(p) = std::env::var("PIPESIM_DUMP") {
		let mut out = String::new();
		for e in &disk.events {
			out.push_str(&format!("{} {} {} {} {} {}\n", e.seq, e.kind.name(), e.file, e.a, e.b, e.res));
		}
		let _ = std::fs::write(p, out);
	}
	RunResult {
		violations: std::mem::take(&mut ex.viol),
		stats: std::mem::take(&mut ex.stats),
		fingerprint: disk.fingerprint,
		counters: disk.counters.clone(),
		ops_executed: executed,
	}
}

/// Execute one run on a fresh OS thread (fresh std RandomState keys, fresh try_io counter).
pub fn run_once(cfg: &RunCfg, ops: &[Op], base: &str) -> Outcome {
	let _ = std::fs::remove_dir_all(base);
	let _ = std::fs::create_dir_all(base);
	let cfg2 = cfg.clone();
	let ops2 = ops.to_vec();
	let base2 = base.to_string();
	let h = std::thread::Builder::new()
		.stack_size(64 << 20)
		.spawn(move || {
			let r = std::panic::catch_unwind(std::panic::AssertUnwindSafe(|| run_body(&cfg2, &ops2, &base2)));
			match r {
				Ok(r) => (Some(r), None),
				Err(p) => {
					let msg = if let Some(s) = p.downcast_ref::<&str>() {
						s.to_string()
					} else if let Some(s) = p.downcast_ref::<String>() {
						s.clone()
					} else {
						"panic".to_string()
					};
					let d = simdisk::uninstall();
					let loc = LAST_PANIC.lock().map(|s| s.clone()).unwrap_or_default();
					(
						d.map(|d| RunResult {
							violations: Vec::new(),
							stats: Default::default(),
							fingerprint: d.fingerprint,
							counters: d.counters.clone(),
							ops_executed: 0,
						}),
						Some(format!("{msg} @ {loc}")),
					)
				},
			}
		})
		.expect("spawn run thread");
	// Watchdog (safety net only, never an oracle): a run that does not finish within the wall
	// clock limit is reported as a harness error and the worker process ends.
	let t0 = std::time::Instant::now();
	let pt = {
		use std::os::unix::thread::JoinHandleExt;
		h.as_pthread_t()
	};
	let mut win_start = std::time::Instant::now();
	let mut win_cpu = thread_cpu_ns(pt);
	CURRENT_OP.store(usize::MAX, Ordering::Relaxed);
	let mut op_seen = usize::MAX;
	let mut op_start = std::time::Instant::now();
	let mut last_rss_check = std::time::Instant::now();
	let rss_now = || -> u64 {
		std::fs::read_to_string("/proc/self/statm")
			.ok()
			.and_then(|s| s.split_whitespace().nth(1).and_then(|x| x.parse::<u64>().ok()))
			.unwrap_or(0) * 4096
	};
	// growth during this run (a worker process that has executed thousands of runs, some of
	// which leaked their handle after a panic, has a large footprint of its own)
	let rss_at_start = rss_now();
	while !h.is_finished() {
		let cur = CURRENT_OP.load(Ordering::Relaxed);
		// memory guard: a call that allocates without bound is reported before the machine runs
		// out of memory (no run of the generator needs more than a few hundred MiB)
		if last_rss_check.elapsed().as_millis() >= 500 {
			last_rss_check = std::time::Instant::now();
			if rss_now().saturating_sub(rss_at_start) > RSS_LIMIT_BYTES && cur != usize::MAX {
				let deferred = exec::DEFERRAL_SEEN.load(Ordering::SeqCst);
				return Outcome {
					result: RunResult {
						violations: vec![Violation {
							prop: if deferred { "C11".to_string() } else { crash_prop_for(&cfg.scenario).to_string() },
							class: if deferred { "after-deferral:no-return".to_string() } else { "no-return".to_string() },
							detail: format!("the call of op {cur} (or the final reopen after it) keeps allocating: resident memory grew by more than {} GiB during this run", RSS_LIMIT_BYTES >> 30),
							op_index: cur,
						}],
						stats: Default::default(),
						fingerprint: 0,
						counters: Default::default(),
						ops_executed: 0,
					},
					panicked: None,
					hung: false,
					blocked: true,
				}
			}
		}
		if cur != op_seen {
			op_seen = cur;
			op_start = std::time::Instant::now();
		} else if cur != usize::MAX &&
			op_start.elapsed().as_secs() >
				(if exec::DEFERRAL_SEEN.load(Ordering::SeqCst) { 10 } else { OP_LIMIT.load(Ordering::Relaxed) })
		{
			return Outcome {
				result: RunResult {
					violations: vec![Violation {
						prop: if exec::DEFERRAL_SEEN.load(Ordering::SeqCst) { "C11".to_string() } else { crash_prop_for(&cfg.scenario).to_string() },
						class: if exec::DEFERRAL_SEEN.load(Ordering::SeqCst) { "after-deferral:no-return".to_string() } else { "no-return".to_string() },
						detail: format!("the call of op {cur} (or the final reopen after it) has kept the only thread of the run busy for more than {} s without returning", op_start.elapsed().as_secs()),
						op_index: cur,
					}],
					stats: Default::default(),
					fingerprint: 0,
					counters: Default::default(),
					ops_executed: 0,
				},
				panicked: None,
				hung: false,
				blocked: true,
			}
		}
		if win_start.elapsed().as_secs() >= BLOCKED_WINDOW_SECS {
			let now_cpu = if h.is_finished() { None } else { thread_cpu_ns(pt) };
			if let (Some(a), Some(b)) = (win_cpu, now_cpu) {
				if b.saturating_sub(a) < 20_000_000 && !h.is_finished() {
					let prop = crash_prop_for(&cfg.scenario);
					let op_index = CURRENT_OP.load(Ordering::Relaxed);
					return Outcome {
						result: RunResult {
							violations: vec![Violation {
								prop: if exec::DEFERRAL_SEEN.load(Ordering::SeqCst) { "C11".to_string() } else { prop.to_string() },
								class: if exec::DEFERRAL_SEEN.load(Ordering::SeqCst) { "after-deferral:blocked-forever".to_string() } else { "blocked-forever".to_string() },
								detail: format!(
									"the call of op {op_index} did not return: the only thread of the run has been blocked without using CPU for {BLOCKED_WINDOW_SECS} s and nobody exists to wake it"
								),
								op_index,
							}],
							stats: Default::default(),
							fingerprint: 0,
							counters: Default::default(),
							ops_executed: 0,
						},
						panicked: None,
						hung: false,
						blocked: true,
					}
				}
			}
			win_start = std::time::Instant::now();
			win_cpu = now_cpu;
		}
		if t0.elapsed().as_secs() > RUN_WALL_LIMIT_SECS {
			return Outcome {
				result: RunResult {
					violations: Vec::new(),
					stats: Default::default(),
					fingerprint: 0,
					counters: Default::default(),
					ops_executed: 0,
				},
				panicked: None,
				hung: true,
				blocked: false,
			}
		}
		std::thread::sleep(std::time::Duration::from_micros(100));
	}
	let (r, p) = h.join().expect("run thread join");
	let _ = std::fs::remove_dir_all(base);
	let mut result = r.unwrap_or(RunResult {
		violations: Vec::new(),
		stats: Default::default(),
		fingerprint: 0,
		counters: Default::default(),
		ops_executed: 0,
	});
	if let Some(msg) = &p {
		let prop = crash_prop_for(&cfg.scenario);
		let deferred = exec::DEFERRAL_SEEN.load(Ordering::SeqCst);
		result.violations.push(Violation {
			prop: if deferred { "C11".to_string() } else { prop.to_string() },
			class: if deferred { "after-deferral:panic".to_string() } else { "panic".to_string() },
			detail: format!("parity-db panicked: {msg}"),
			op_index: usize::MAX,
		});
	}
	Outcome { result, panicked: p, hung: false, blocked: false }
}

fn crash_prop_for(scenario: &str) -> &'static str {
	match scenario {
		"crash" => "C02",
		"power" => "C12",
		"logfuzz" => "C13",
		"ioerr" => "C16",
		s => exec::map_property(s),
	}
}

fn main() {
	let _ = log::set_logger(&LOGGER);
	log::set_max_level(log::LevelFilter::Debug);
	std::panic::set_hook(Box::new(|info| {
		let loc = info.location().map(|l| format!("{}:{}", l.file(), l.line())).unwrap_or_default();
		if std::env::var("PIPESIM_BT").is_ok() {
			let bt = std::backtrace::Backtrace::force_capture();
			simdisk::muted(|| eprintln!("PANIC {info}\n{bt}"));
		}
		if let Ok(mut s) = LAST_PANIC.lock() {
			*s = loc;
		}
	}));
	// Library code that opens databases with default options (migrate, clear_column) must not
	// spawn worker threads inside a single-threaded, replayable run.
	parity_db::verif::SUPPRESS_WORKER_THREADS.store(true, Ordering::SeqCst);
	let args: Vec<String> = std::env::args().collect();
	let code = orchestrate::main(&args);
	std::process::exit(code);
}
