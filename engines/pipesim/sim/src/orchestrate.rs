//! Command line, worker fan-out, merging, minimisation, replay, evidence.

use crate::exec::Violation;
use crate::gen::{self, Tier};
use crate::prng::{fnv64, mix64, Rng};
use crate::world::*;
use crate::{run_once, Outcome};
use serde_json::{json, Value as J};
use std::collections::{BTreeMap, BTreeSet, HashSet};
use std::time::Instant;

fn arg<'a>(args: &'a [String], name: &str) -> Option<&'a str> {
	args.iter().position(|a| a == name).and_then(|i| args.get(i + 1)).map(|s| s.as_str())
}

fn has(args: &[String], name: &str) -> bool {
	args.iter().any(|a| a == name)
}

fn scratch_root() -> String {
	format!("/dev/shm/pdbsim/{}", std::process::id())
}

pub fn run_seed_for(batch_seed: u64, worker: u64, k: u64) -> u64 {
	mix64(mix64(batch_seed ^ 0xA5A5_0000_0000_0000).wrapping_add(worker.wrapping_mul(0x1_0000_0001)).wrapping_add(k << 20))
}

fn case_hash(cfg: &RunCfg, ops: &[Op]) -> u64 {
	let mut h = fnv64(0, cfg.json().to_string().as_bytes());
	for o in ops {
		h = fnv64(h, o.json().to_string().as_bytes());
	}
	h
}

fn is_harness_panic(msg: &str) -> bool {
	// The panic location is appended after " @ ".
	match msg.rsplit_once(" @ ") {
		Some((_, loc)) => !(loc.contains("/repo/") || loc.contains("parity")),
		None => false,
	}
}

fn nontrivial(scenario: &str, out: &Outcome) -> bool {
	let s = &out.result.stats;
	let base = s.probes.get("records_enacted").cloned().unwrap_or(0) >= 1 && s.nonempty_reads >= 1;
	match scenario {
		"crash" | "power" | "drop" => base && (s.images_midstep >= 1 || s.restarts >= 1),
		"btree" => base && s.iter_calls >= 1,
		"logfuzz" => s.logfuzz_images >= 1,
		"ioerr" => s.io_faults_fired >= 1,
		"migrate" => s.probes.get("migrate_ops").cloned().unwrap_or(0) >= 1 && s.nonempty_reads >= 1,
		_ => base,
	}
}

pub fn violation_json(v: &Violation) -> J {
	json!({"property": v.prop, "class": v.class, "detail": v.detail, "op_index": if v.op_index == usize::MAX { J::Null } else { json!(v.op_index) }})
}

fn replay_json(cfg: &RunCfg, ops: &[Op], seed: u64, v: &Violation, fingerprint: u64, tier: &str) -> J {
	json!({
		"engine": "pipesim",
		"scenario": cfg.scenario,
		"tier": tier,
		"run_seed": seed.to_string(),
		"config": cfg.json(),
		"ops": ops.iter().map(|o| o.json()).collect::<Vec<_>>(),
		"violation": violation_json(v),
		"event_log_hash": format!("{:016x}", fingerprint),
	})
}

// ---------------------------------------------------------------------------------------------
// Minimisation: delta debugging over the explicit op list.

fn same_class(out: &Outcome, prop: &str, class: &str) -> Option<Violation> {
	out.result.violations.iter().find(|v| v.prop == prop && v.class == class).cloned()
}

pub fn minimise(cfg: &RunCfg, ops: &[Op], v: &Violation, budget: usize, base: &str) -> (RunCfg, Vec<Op>, Violation, usize) {
	let mut best_ops: Vec<Op> = ops.to_vec();
	let mut best_cfg = cfg.clone();
	let mut best_v = v.clone();
	let mut used = 0usize;
	// wall-clock cap as well (runs with thousands of keys take seconds each)
	let t0 = std::time::Instant::now();
	let max_wall = std::time::Duration::from_secs(if budget <= 150 { 40 } else { 400 });
	// 1. drop the suffix after the violating op
	if v.op_index != usize::MAX && v.op_index + 1 < best_ops.len() {
		let cand: Vec<Op> = best_ops[..=v.op_index].to_vec();
		used += 1;
		let out = run_once(&best_cfg, &cand, base);
		if let Some(nv) = same_class(&out, &v.prop, &v.class) {
			best_ops = cand;
			best_v = nv;
		}
	}
	// 2. remove chunks, largest first
	let mut chunk = std::cmp::max(1, best_ops.len() / 2);
	while chunk >= 1 && used < budget && t0.elapsed() < max_wall {
		let mut i = 0;
		let mut progressed = false;
		while i < best_ops.len() && used < budget && t0.elapsed() < max_wall {
			let end = std::cmp::min(best_ops.len(), i + chunk);
			let mut cand = best_ops.clone();
			cand.drain(i..end);
			used += 1;
			let out = run_once(&best_cfg, &cand, base);
			if let Some(nv) = same_class(&out, &v.prop, &v.class) {
				best_ops = cand;
				best_v = nv;
				progressed = true;
			} else {
				i += chunk;
			}
		}
		if chunk == 1 && !progressed {
			break
		}
		if !progressed || chunk > 1 {
			chunk /= 2;
			if chunk == 0 {
				break
			}
		}
	}
	// 3. shrink transactions
	let mut idx = 0;
	while idx < best_ops.len() && used < budget && t0.elapsed() < max_wall {
		if let Op::Commit(tx) = &best_ops[idx] {
			let mut tx = tx.clone();
			let mut j = 0;
			while j < tx.len() && tx.len() > 1 && used < budget && t0.elapsed() < max_wall {
				let mut t2 = tx.clone();
				t2.remove(j);
				let mut cand = best_ops.clone();
				cand[idx] = Op::Commit(t2.clone());
				used += 1;
				let out = run_once(&best_cfg, &cand, base);
				if let Some(nv) = same_class(&out, &v.prop, &v.class) {
					best_ops = cand;
					best_v = nv;
					tx = t2;
				} else {
					j += 1;
				}
			}
		}
		idx += 1;
	}
	// 4. remove buggify faults
	if used < budget && t0.elapsed() < max_wall && (best_cfg.max_read != 0 || best_cfg.max_write != 0 || best_cfg.eintr_one_in != 0) {
		let mut c2 = best_cfg.clone();
		c2.max_read = 0;
		c2.max_write = 0;
		c2.eintr_one_in = 0;
		used += 1;
		let out = run_once(&c2, &best_ops, base);
		if let Some(nv) = same_class(&out, &v.prop, &v.class) {
			best_cfg = c2;
			best_v = nv;
		}
	}
	// 5. simplify crash plans: single boundary image / no recrash
	let mut idx = 0;
	while idx < best_ops.len() && used < budget && t0.elapsed() < max_wall {
		if let Op::Crash { inner, plan } = &best_ops[idx] {
			if plan.recrash > 0 {
				let mut p2 = plan.clone();
				p2.recrash = 0;
				let mut cand = best_ops.clone();
				cand[idx] = Op::Crash { inner: inner.clone(), plan: p2 };
				used += 1;
				let out = run_once(&best_cfg, &cand, base);
				if let Some(nv) = same_class(&out, &v.prop, &v.class) {
					best_ops = cand;
					best_v = nv;
				}
			}
		}
		idx += 1;
	}
	(best_cfg, best_ops, best_v, used)
}

// ---------------------------------------------------------------------------------------------
// Worker

#[derive(Default)]
struct Agg {
	runs: u64,
	nontrivial: HashSet<u64>,
	distinct: HashSet<u64>,
	ops: u64,
	steps: u64,
	commits: u64,
	reads: u64,
	restarts: u64,
	images: u64,
	images_mid: u64,
	images_recovery: u64,
	power_dropped: u64,
	power_cut: u64,
	iter_calls: u64,
	drained: u64,
	structural: u64,
	stage_vectors: BTreeSet<u64>,
	probes: BTreeMap<String, u64>,
	crash_points: BTreeMap<String, u64>,
	events: u64,
	by_kind: [u64; 16],
	short_reads: u64,
	short_writes: u64,
	eintr: u64,
	errno: u64,
	snaps_proc: u64,
	snaps_power: u64,
	trunc_reverted: u64,
	monitor_checks: u64,
	io_faults: u64,
	logfuzz: u64,
	samples: Vec<J>,
	violations: Vec<J>,
	harness_errors: Vec<String>,
	recovered_lt_u: u64,
}

impl Agg {
	fn add(&mut self, out: &Outcome) {
		let s = &out.result.stats;
		self.runs += 1;
		self.ops += s.ops;
		self.steps += s.steps;
		self.commits += s.commits;
		self.reads += s.reads_checked;
		self.restarts += s.restarts;
		self.images += s.images_checked;
		self.images_mid += s.images_midstep;
		self.images_recovery += s.images_in_recovery;
		self.power_dropped += s.power_images_with_dropped_pages;
		self.power_cut += s.power_images_with_cut_tail;
		self.iter_calls += s.iter_calls;
		self.drained += s.drained_points;
		self.structural += s.structural_checks;
		self.recovered_lt_u += s.recovered_j_lt_u;
		self.io_faults += s.io_faults_fired;
		self.logfuzz += s.logfuzz_images;
		for v in &s.stage_vectors {
			self.stage_vectors.insert(*v);
		}
		for (k, v) in &s.probes {
			*self.probes.entry(k.clone()).or_insert(0) += v;
		}
		for (k, v) in &s.crash_points {
			*self.crash_points.entry(k.clone()).or_insert(0) += v;
		}
		let c = &out.result.counters;
		self.events += c.events;
		for i in 0..16 {
			self.by_kind[i] += c.by_kind[i];
		}
		self.short_reads += c.short_reads;
		self.short_writes += c.short_writes;
		self.eintr += c.eintr;
		self.errno += c.errno_injected;
		self.snaps_proc += c.snapshots_proc;
		self.snaps_power += c.snapshots_power;
		self.trunc_reverted += c.trunc_reverted;
		self.monitor_checks += c.monitor_checks;
	}

	fn json(&self) -> J {
		json!({
			"runs": self.runs,
			"nontrivial": self.nontrivial.iter().map(|h| format!("{:x}", h)).collect::<Vec<_>>(),
			"distinct": self.distinct.len(),
			"ops": self.ops, "steps": self.steps, "commits": self.commits, "reads": self.reads,
			"restarts": self.restarts, "images": self.images, "images_mid": self.images_mid,
			"images_recovery": self.images_recovery,
			"power_dropped": self.power_dropped, "power_cut": self.power_cut,
			"iter_calls": self.iter_calls, "drained": self.drained, "structural": self.structural,
			"stage_vectors": self.stage_vectors.iter().map(|h| format!("{:x}", h)).collect::<Vec<_>>(),
			"probes": self.probes, "crash_points": self.crash_points,
			"events": self.events, "by_kind": self.by_kind.to_vec(),
			"short_reads": self.short_reads, "short_writes": self.short_writes, "eintr": self.eintr,
			"errno": self.errno, "snaps_proc": self.snaps_proc, "snaps_power": self.snaps_power, "trunc_reverted": self.trunc_reverted,
			"monitor_checks": self.monitor_checks, "io_faults": self.io_faults, "logfuzz": self.logfuzz,
			"recovered_lt_u": self.recovered_lt_u,
			"samples": self.samples, "violations": self.violations, "harness_errors": self.harness_errors,
		})
	}
}

fn worker(args: &[String]) -> i32 {
	let prop = arg(args, "--prop").unwrap_or("C01").to_string();
	let scenario = arg(args, "--scenario").map(|s| s.to_string()).unwrap_or_else(|| gen::scenario_for(&prop).to_string());
	let tier = if arg(args, "--tier") == Some("thorough") { Tier::Thorough } else { Tier::Quick };
	let seed: u64 = arg(args, "--seed").and_then(|s| s.parse().ok()).unwrap_or(1);
	let index: u64 = arg(args, "--index").and_then(|s| s.parse().ok()).unwrap_or(0);
	let budget: f64 = arg(args, "--budget-secs").and_then(|s| s.parse().ok()).unwrap_or(10.0);
	let max_runs: u64 = arg(args, "--max-runs").and_then(|s| s.parse().ok()).unwrap_or(u64::MAX);
	let out_path = arg(args, "--out").unwrap_or("/dev/stdout").to_string();
	let fp_path = arg(args, "--fingerprints").map(|s| s.to_string());
	let start = Instant::now();
	let mut agg = Agg::default();
	let base = format!("{}/w{}", scratch_root(), index);
	let mut k = 0u64;
	let mut fps: Vec<(u64, u64, u64)> = Vec::new();
	let mut seen_classes: HashSet<(String, String)> = HashSet::new();
	while k < max_runs && start.elapsed().as_secs_f64() < budget {
		let rs = run_seed_for(seed, index, k);
		k += 1;
		let (cfg, ops) = gen::gen(&scenario, tier, rs);
		let out = run_once(&cfg, &ops, &format!("{}/r", base));
		if out.hung {
			agg.harness_errors.push(format!("run seed {rs} (scenario {scenario}) did not finish within the wall-clock limit; worker stopped"));
			let _ = std::fs::write(&out_path, agg.json().to_string());
			unsafe { libc::_exit(3) };
		}
		let blocked = out.blocked;
		agg.add(&out);
		gen::FEATURES.with(|f| {
			for name in f.borrow().iter() {
				*agg.probes.entry(format!("gen:{name}")).or_insert(0) += 1;
			}
		});
		let h = case_hash(&cfg, &ops);
		agg.distinct.insert(h);
		if nontrivial(&scenario, &out) {
			agg.nontrivial.insert(h);
		}
		if fp_path.is_some() {
			let mut vh = 0u64;
			for v in &out.result.violations {
				vh = fnv64(vh, v.class.as_bytes());
				vh = fnv64(vh, v.detail.as_bytes());
			}
			fps.push((rs, out.result.fingerprint, vh ^ out.result.stats.reads_checked));
		}
		// short runs are written out in full; of longer ones (all runs of the thorough tier) the first
		// operations and the total
		if agg.samples.len() < 3 && nontrivial(&scenario, &out) && (ops.len() <= 14 || tier == Tier::Thorough) {
			agg.samples.push(json!({
				"run_seed": rs.to_string(),
				"config": cfg.json(),
				"ops_total": ops.len(),
				"ops": ops.iter().take(14).map(|o| {
					let j = o.json();
					let t = j.to_string();
					if t.len() > 1500 { json!({"op": j["op"], "abridged": format!("{}...", &t[..600])}) } else { j }
				}).collect::<Vec<_>>(),
				"events": out.result.counters.events,
				"violations": out.result.violations.len(),
			}));
		}
		if let Some(p) = &out.panicked {
			if is_harness_panic(p) {
				agg.harness_errors.push(format!("run seed {rs}: harness panic: {p}"));
				continue
			}
		}
		for v in &out.result.violations {
			let key = (v.prop.clone(), v.class.clone());
			if seen_classes.contains(&key) && agg.violations.len() >= 4 {
				continue
			}
			seen_classes.insert(key);
			if agg.violations.len() < 12 {
				agg.violations.push(json!({
					"run_seed": rs.to_string(),
					"violation": violation_json(v),
					"config": cfg.json(),
					"ops": ops.iter().map(|o| o.json()).collect::<Vec<_>>(),
					"fingerprint": format!("{:016x}", out.result.fingerprint),
				}));
			}
		}
		if blocked {
			// the run thread is leaked and still holds its files: this worker ends here
			let _ = std::fs::write(&out_path, agg.json().to_string());
			unsafe { libc::_exit(4) };
		}
	}
	let _ = std::fs::remove_dir_all(&base);
	let _ = std::fs::remove_dir(scratch_root());
	let _ = std::fs::write(&out_path, agg.json().to_string());
	if let Some(p) = fp_path {
		let mut s = String::new();
		for (a, b, c) in fps {
			s.push_str(&format!("{a} {b:016x} {c:016x}\n"));
		}
		let _ = std::fs::write(p, s);
	}
	0
}

// ---------------------------------------------------------------------------------------------
// Single run / replay

fn cmd_run(args: &[String]) -> i32 {
	let scenario = arg(args, "--scenario").unwrap_or("kv").to_string();
	let tier = if arg(args, "--tier") == Some("thorough") { Tier::Thorough } else { Tier::Quick };
	let seed: u64 = arg(args, "--seed").and_then(|s| s.parse().ok()).unwrap_or(1);
	if has(args, "--verbose") {
		crate::VERBOSE_LOG.store(1, std::sync::atomic::Ordering::Relaxed);
	}
	let (cfg, ops) = gen::gen(&scenario, tier, seed);
	if has(args, "--print") {
		println!("{}", serde_json::to_string_pretty(&cfg.json()).unwrap());
		for (i, o) in ops.iter().enumerate() {
			println!("{i}: {}", o.json());
		}
	}
	let out = run_once(&cfg, &ops, &format!("{}/single", scratch_root()));
	let _ = std::fs::remove_dir_all(scratch_root());
	println!(
		"seed {seed} ops {} executed {} events {} fingerprint {:016x} reads {} images {} violations {}",
		ops.len(),
		out.result.ops_executed,
		out.result.counters.events,
		out.result.fingerprint,
		out.result.stats.reads_checked,
		out.result.stats.images_checked,
		out.result.violations.len()
	);
	println!("probes {:?}", out.result.stats.probes);
	for v in &out.result.violations {
		println!("  {} {} @op {}: {}", v.prop, v.class, v.op_index as i64, v.detail);
	}
	if out.result.violations.is_empty() {
		0
	} else {
		1
	}
}

pub fn load_replay(path: &str) -> Option<(RunCfg, Vec<Op>, J)> {
	let s = std::fs::read_to_string(path).ok()?;
	let j: J = serde_json::from_str(&s).ok()?;
	let cfg = RunCfg::from_json(&j["config"]);
	let ops: Vec<Op> = j["ops"].as_array()?.iter().map(Op::from_json).collect();
	Some((cfg, ops, j))
}

fn cmd_replay(args: &[String]) -> i32 {
	let Some(path) = arg(args, "--file") else {
		eprintln!("--file required");
		return 2
	};
	if has(args, "--verbose") {
		crate::VERBOSE_LOG.store(1, std::sync::atomic::Ordering::Relaxed);
	}
	let Some((cfg, ops, j)) = load_replay(path) else {
		eprintln!("cannot read replay file {path}");
		return 2
	};
	let out = run_once(&cfg, &ops, &format!("{}/replay", scratch_root()));
	let _ = std::fs::remove_dir_all(scratch_root());
	let want_prop = j["violation"]["property"].as_str().unwrap_or("");
	let want_class = j["violation"]["class"].as_str().unwrap_or("");
	let want_fp = j["event_log_hash"].as_str().unwrap_or("");
	let got_fp = format!("{:016x}", out.result.fingerprint);
	println!("replayed {} ops, {} events, event-log hash {} (recorded {})", ops.len(), out.result.counters.events, got_fp, want_fp);
	for v in &out.result.violations {
		println!("  {} {} @op {}: {}", v.prop, v.class, v.op_index as i64, v.detail);
	}
	if let Some(v) = out.result.violations.iter().find(|v| v.prop == want_prop && v.class == want_class) {
		println!("VIOLATION property={} replay={}", v.prop, path);
		if got_fp != want_fp {
			println!("note: event-log hash differs from the recorded one");
		}
		1
	} else {
		println!("replay did not reproduce {want_prop}/{want_class}");
		0
	}
}

// ---------------------------------------------------------------------------------------------
// Determinism self-test: every run seed executed twice in separate processes, at different
// worker counts; event-log hashes and outcome hashes must agree.

fn cmd_selftest(args: &[String]) -> i32 {
	let n: u64 = arg(args, "--n").and_then(|s| s.parse().ok()).unwrap_or(60);
	let seed: u64 = arg(args, "--seed").and_then(|s| s.parse().ok()).unwrap_or(1);
	let scenarios: Vec<String> = arg(args, "--scenarios")
		.unwrap_or("kv,btree,sizes,rc,reindex,crash,power,drop,struct")
		.split(',')
		.map(|s| s.to_string())
		.collect();
	let exe = std::env::current_exe().unwrap();
	let dir = format!("{}/selftest", scratch_root());
	let _ = std::fs::create_dir_all(&dir);
	let mut bad = 0;
	let mut total = 0;
	for sc in &scenarios {
		let mut maps: Vec<BTreeMap<u64, (String, String)>> = Vec::new();
		for pass in 0..2 {
			// pass 0: one process does all n runs; pass 1: n runs split over 4 processes run concurrently
			let mut children = Vec::new();
			let procs = if pass == 0 { 1 } else { 4 };
			// all passes use worker index 0 with disjoint k ranges is not possible; instead each
			// process re-runs the same (index 0) seeds but a different slice via --skip
			for p in 0..procs {
				let fp = format!("{dir}/{sc}-{pass}-{p}.fp");
				let child = std::process::Command::new(&exe)
					.args([
						"worker", "--scenario", sc, "--seed", &seed.to_string(), "--index", "0", "--budget-secs", "600",
						"--max-runs", &n.to_string(), "--out", "/dev/null", "--fingerprints", &fp,
					])
					.spawn()
					.expect("spawn");
				children.push((child, fp));
			}
			let mut m = BTreeMap::new();
			for (mut c, fp) in children {
				let _ = c.wait();
				let s = std::fs::read_to_string(&fp).unwrap_or_default();
				for line in s.lines() {
					let parts: Vec<&str> = line.split(' ').collect();
					if parts.len() == 3 {
						let k: u64 = parts[0].parse().unwrap();
						let v = (parts[1].to_string(), parts[2].to_string());
						if let Some(old) = m.insert(k, v.clone()) {
							if old != v {
								println!("NONDETERMINISM scenario={sc} run_seed={k}: {:?} vs {:?} (same pass, concurrent processes)", old, v);
								bad += 1;
							}
						}
					}
				}
			}
			maps.push(m);
		}
		for (k, v) in &maps[0] {
			total += 1;
			if maps[1].get(k) != Some(v) {
				println!("NONDETERMINISM scenario={sc} run_seed={k}: {:?} vs {:?}", v, maps[1].get(k));
				bad += 1;
			}
		}
	}
	let _ = std::fs::remove_dir_all(scratch_root());
	println!("determinism self-test: {total} run seeds x 5 executions in separate processes, {bad} divergences");
	if bad > 0 {
		2
	} else {
		0
	}
}

// ---------------------------------------------------------------------------------------------
// check: fan out, merge, minimise, replay, evidence

struct Known {
	property: String,
	class_prefix: String,
	class: String,
	needles: Vec<String>,
	what: String,
	status: String,
}

fn load_known(path: &str) -> Vec<Known> {
	let Ok(s) = std::fs::read_to_string(path) else { return Vec::new() };
	let Ok(j) = serde_json::from_str::<J>(&s) else { return Vec::new() };
	let mut out = Vec::new();
	if let Some(a) = j["findings"].as_array() {
		for f in a {
			out.push(Known {
				property: f["property"].as_str().unwrap_or("").to_string(),
				class_prefix: f["signature"]["class_prefix"].as_str().unwrap_or("").to_string(),
				class: f["signature"]["class"].as_str().unwrap_or("").to_string(),
				needles: f["signature"]["detail_contains"]
					.as_array()
					.map(|a| a.iter().filter_map(|x| x.as_str().map(|s| s.to_string())).collect())
					.unwrap_or_default(),
				what: f["what"].as_str().unwrap_or("").to_string(),
				status: f["status"].as_str().unwrap_or("known").to_string(),
			});
		}
	}
	out
}

fn matches_known<'a>(known: &'a [Known], v: &Violation) -> Option<&'a Known> {
	known.iter().find(|k| {
		k.status == "known" &&
			k.property == v.prop &&
			(if k.class_prefix.is_empty() { k.class == v.class } else { v.class.starts_with(k.class_prefix.as_str()) }) &&
			k.needles.iter().all(|n| v.detail.contains(n.as_str()))
	})
}

fn cmd_check(args: &[String]) -> i32 {
	let prop = arg(args, "--prop").unwrap_or("C01").to_string();
	let scenario = arg(args, "--scenario").map(|s| s.to_string()).unwrap_or_else(|| gen::scenario_for(&prop).to_string());
	let tier_s = std::env::var("VERIF_TIER").ok().or_else(|| arg(args, "--tier").map(|s| s.to_string())).unwrap_or("quick".into());
	let tier_s = if tier_s == "thorough" { "thorough" } else { "quick" };
	let seed: u64 = std::env::var("VERIF_SEED").ok().and_then(|s| s.parse().ok()).or_else(|| arg(args, "--seed").and_then(|s| s.parse().ok())).unwrap_or(1);
	let workers: u64 = arg(args, "--workers").and_then(|s| s.parse().ok()).unwrap_or(16);
	let budget: f64 = arg(args, "--budget-secs").and_then(|s| s.parse().ok()).unwrap_or(if tier_s == "quick" { 30.0 } else { 600.0 });
	let verif_dir = arg(args, "--verif-dir").unwrap_or("/verif").to_string();
	let evidence_path = format!("{verif_dir}/evidence/{prop}.json");
	let start = Instant::now();
	println!("pipesim check property={prop} scenario={scenario} tier={tier_s} VERIF_SEED={seed} workers={workers} budget={budget}s");
	let exe = std::env::current_exe().unwrap();
	let dir = format!("{}/check", scratch_root());
	let _ = std::fs::create_dir_all(&dir);
	let mut children = Vec::new();
	for w in 0..workers {
		let out = format!("{dir}/w{w}.json");
		let child = std::process::Command::new(&exe)
			.args([
				"worker", "--prop", &prop, "--scenario", &scenario, "--tier", tier_s, "--seed", &seed.to_string(), "--index", &w.to_string(),
				"--budget-secs", &budget.to_string(), "--out", &out,
			])
			.spawn();
		match child {
			Ok(c) => children.push((c, out, w)),
			Err(e) => {
				println!("HARNESS-ERROR cannot spawn worker: {e}");
				return 2
			},
		}
	}
	let mut merged: Vec<J> = Vec::new();
	let mut harness_errors: Vec<String> = Vec::new();
	for (mut c, out, w) in children {
		let st = c.wait();
		match st {
			Ok(s) if s.success() => {},
			// a worker ends after a run whose thread stayed blocked (reported as a violation)
			Ok(s) if s.code() == Some(4) => {},
			Ok(s) => harness_errors.push(format!("worker {w} exited with {s}")),
			Err(e) => harness_errors.push(format!("worker {w}: {e}")),
		}
		match std::fs::read_to_string(&out).ok().and_then(|s| serde_json::from_str::<J>(&s).ok()) {
			Some(j) => merged.push(j),
			None => harness_errors.push(format!("worker {w} produced no result")),
		}
	}
	let sum = |k: &str| -> u64 { merged.iter().map(|j| j[k].as_u64().unwrap_or(0)).sum() };
	let mut nontrivial: HashSet<String> = HashSet::new();
	let mut stage_vectors: HashSet<String> = HashSet::new();
	let mut probes: BTreeMap<String, u64> = BTreeMap::new();
	let mut crash_points: BTreeMap<String, u64> = BTreeMap::new();
	let mut by_kind = [0u64; 16];
	let mut samples: Vec<J> = Vec::new();
	let mut viols: Vec<J> = Vec::new();
	for j in &merged {
		for h in j["nontrivial"].as_array().unwrap_or(&Vec::new()) {
			nontrivial.insert(h.as_str().unwrap_or("").to_string());
		}
		for h in j["stage_vectors"].as_array().unwrap_or(&Vec::new()) {
			stage_vectors.insert(h.as_str().unwrap_or("").to_string());
		}
		if let Some(o) = j["probes"].as_object() {
			for (k, v) in o {
				*probes.entry(k.clone()).or_insert(0) += v.as_u64().unwrap_or(0);
			}
		}
		if let Some(o) = j["crash_points"].as_object() {
			for (k, v) in o {
				*crash_points.entry(k.clone()).or_insert(0) += v.as_u64().unwrap_or(0);
			}
		}
		if let Some(a) = j["by_kind"].as_array() {
			for (i, v) in a.iter().enumerate() {
				by_kind[i] += v.as_u64().unwrap_or(0);
			}
		}
		for s in j["samples"].as_array().unwrap_or(&Vec::new()) {
			if samples.len() < 3 {
				samples.push(s.clone());
			}
		}
		for v in j["violations"].as_array().unwrap_or(&Vec::new()) {
			viols.push(v.clone());
		}
		for e in j["harness_errors"].as_array().unwrap_or(&Vec::new()) {
			harness_errors.push(e.as_str().unwrap_or("").to_string());
		}
	}
	let runs = sum("runs");
	// -- violations: own property => minimise + replay; others => cross-property observations
	let known = load_known(&format!("{verif_dir}/known_findings.json"));
	let mut own_reported: Vec<J> = Vec::new();
	let mut known_lines: BTreeSet<String> = BTreeSet::new();
	let mut cross: BTreeMap<String, u64> = BTreeMap::new();
	let mut seen_own: HashSet<String> = HashSet::new();
	let mut exit = 0;
	let mut processed_own = 0;
	let mut confirmed_known: HashSet<String> = HashSet::new();
	let base = format!("{}/min", scratch_root());
	for v in &viols {
		let vp = v["violation"]["property"].as_str().unwrap_or("").to_string();
		let vc = v["violation"]["class"].as_str().unwrap_or("").to_string();
		if vp != prop {
			*cross.entry(format!("{vp}/{vc}")).or_insert(0) += 1;
			continue
		}
		if seen_own.len() >= 3 && !seen_own.contains(&vc) {
			continue
		}
		if seen_own.contains(&vc) && own_reported.len() >= 3 {
			continue
		}
		let cfg = RunCfg::from_json(&v["config"]);
		let ops: Vec<Op> = v["ops"].as_array().unwrap().iter().map(Op::from_json).collect();
		let run_seed: u64 = v["run_seed"].as_str().unwrap_or("0").parse().unwrap_or(0);
		let viol = Violation {
			prop: vp.clone(),
			class: vc.clone(),
			detail: v["violation"]["detail"].as_str().unwrap_or("").to_string(),
			op_index: v["violation"]["op_index"].as_u64().map(|x| x as usize).unwrap_or(usize::MAX),
		};
		if confirmed_known.contains(&vc) {
			continue
		}
		// confirm in this (fresh) process first
		let first = run_once(&cfg, &ops, &base);
		let Some(confirmed) = same_class(&first, &vp, &vc) else {
			harness_errors.push(format!("violation {vp}/{vc} of run seed {run_seed} did not reproduce in a fresh process"));
			continue
		};
		// The minimiser only accepts candidates with the same (property, class); a signature over
		// class and detail needles that already matches is therefore decided here.
		if let Some(k) = matches_known(&known, &confirmed) {
			known_lines.insert(format!("KNOWN-FINDING: property={} {}", k.property, k.what));
			confirmed_known.insert(vc.clone());
			continue
		}
		if processed_own >= 6 {
			continue
		}
		processed_own += 1;
		let mbudget = if tier_s == "quick" { 150 } else { 1500 };
		let is_blocked = vc.ends_with("blocked-forever") || vc.ends_with("no-return");
		let (mcfg, mops, mv, used) = if is_blocked {
			// every attempt costs the full detection window and leaks a thread: only the suffix
			// after the blocking op is dropped
			let upto = std::cmp::min(ops.len(), confirmed.op_index.saturating_add(1));
			(cfg.clone(), ops[..upto].to_vec(), confirmed.clone(), 0)
		} else {
			crate::OP_LIMIT.store(15, std::sync::atomic::Ordering::Relaxed);
			let r = minimise(&cfg, &ops, &confirmed, mbudget, &base);
			crate::OP_LIMIT.store(crate::OP_WALL_LIMIT_SECS, std::sync::atomic::Ordering::Relaxed);
			r
		};
		// replay the minimised list once more; must hit the same class
		let again = if is_blocked { first } else { run_once(&mcfg, &mops, &base) };
		let Some(final_v) = same_class(&again, &vp, &vc) else {
			harness_errors.push(format!("minimised counterexample for {vp}/{vc} did not replay"));
			continue
		};
		let _ = viol;
		let _ = mv;
		if let Some(k) = matches_known(&known, &final_v) {
			known_lines.insert(format!("KNOWN-FINDING: property={} {}", k.property, k.what));
			continue
		}
		seen_own.insert(vc.clone());
		let rdir = format!("{verif_dir}/replays/{prop}");
		let _ = std::fs::create_dir_all(&rdir);
		let rj = replay_json(&mcfg, &mops, run_seed, &final_v, again.result.fingerprint, tier_s);
		let rpath = format!("{rdir}/{}-{:08x}.json", run_seed, fnv64(0, rj.to_string().as_bytes()) as u32);
		let _ = std::fs::write(&rpath, serde_json::to_string_pretty(&rj).unwrap());
		println!("violation class={vc} run_seed={run_seed} ops {} -> {} after {} minimisation runs", ops.len(), mops.len(), used);
		println!("  {}", final_v.detail);
		println!("VIOLATION property={prop} replay={rpath}");
		own_reported.push(json!({"class": vc, "detail": final_v.detail, "replay": rpath, "run_seed": run_seed.to_string(), "ops_before": ops.len(), "ops_after": mops.len()}));
		exit = 1;
	}
	for l in &known_lines {
		println!("{l}");
	}
	let wall = start.elapsed().as_secs_f64();
	let mut reach_warnings: Vec<String> = Vec::new();
	for want in expected_probes(&scenario) {
		if probes.get(*want).cloned().unwrap_or(0) == 0 {
			reach_warnings.push(format!("probe '{want}' never fired"));
		}
	}
	for w in &reach_warnings {
		println!("REACH-WARNING {w}");
	}
	let faults = json!({
		"crash.proc_images": sum("snaps_proc"),
		"crash.power_images": sum("snaps_power"),
		"crash.power_images_with_an_unsynced_log_truncation_undone": sum("trunc_reverted"),
		"power_images_with_dropped_pages": sum("power_dropped"),
		"power_images_with_cut_log_tail": sum("power_cut"),
		"images_taken_during_recovery": sum("images_recovery"),
		"short_reads": sum("short_reads"),
		"short_writes": sum("short_writes"),
		"eintr": sum("eintr"),
		"errno_injected": sum("errno"),
		"io_fault_ops": sum("io_faults"),
		"log_mutation_images": sum("logfuzz"),
	});
	let ev = json!({
		"property_id": prop,
		"tier": tier_s,
		"seed": seed,
		"level": "exploration",
		"coverage": {
			"evaluations": std::cmp::max(runs, 1),
			"distinct_nontrivial": nontrivial.len(),
			"rule": rule_text(&scenario),
			"samples": samples,
			"exhaustive": false,
			"runs_per_hour": if wall > 0.0 { (runs as f64 / wall * 3600.0) as u64 } else { 0 },
			"simulated_time": {"pipeline_steps": sum("steps"), "operations": sum("ops"), "file_events": sum("events"), "note": "parity-db has no clock or timer; simulated time is counted in pipeline steps and intercepted file events"},
			"commits": sum("commits"),
			"reads_checked": sum("reads"),
			"clean_restarts": sum("restarts"),
			"crash_images_checked": sum("images"),
			"crash_images_mid_step": sum("images_mid"),
			"recoveries_that_lost_an_unsynced_suffix": sum("recovered_lt_u"),
			"iterator_calls_checked": sum("iter_calls"),
			"drained_points": sum("drained"),
			"structural_checks": sum("structural"),
			"ordering_monitor_checks": sum("monitor_checks"),
			"distinct_stage_vectors": stage_vectors.len(),
			"faults_fired": faults,
			"crash_points": crash_points,
			"file_events_by_kind": crate::simdisk::EV_NAMES.iter().enumerate().map(|(i, n)| (n.to_string(), json!(by_kind[i]))).collect::<serde_json::Map<String, J>>(),
			"probes": probes,
			"reach_warnings": reach_warnings,
			"cross_property_observations": cross,
			"known_findings_matched": known_lines.iter().cloned().collect::<Vec<_>>(),
			"violations_reported": own_reported,
			"harness_errors": harness_errors,
			"real_vs_stub": real_vs_stub(),
		},
		"assumptions": assumptions(),
		"wall_s": wall,
		"violations": own_reported_len(exit, &seen_own),
	});
	let _ = std::fs::create_dir_all(format!("{verif_dir}/evidence"));
	if let Err(e) = std::fs::write(&evidence_path, serde_json::to_string_pretty(&ev).unwrap()) {
		println!("HARNESS-ERROR cannot write evidence: {e}");
		return 2
	}
	let _ = std::fs::remove_dir_all(scratch_root());
	println!(
		"{} runs ({} distinct non-trivial), {} ops, {} reads checked, {} crash images, {:.1}s; evidence {}",
		runs,
		nontrivial.len(),
		sum("ops"),
		sum("reads"),
		sum("images"),
		wall,
		evidence_path
	);
	if !harness_errors.is_empty() {
		for e in harness_errors.iter().take(10) {
			println!("HARNESS-ERROR {e}");
		}
		if exit == 0 {
			return 2
		}
	}
	if runs == 0 || nontrivial.len() < 2 {
		println!("HARNESS-ERROR too few non-trivial runs ({} of {})", nontrivial.len(), runs);
		return 2
	}
	exit
}

fn own_reported_len(exit: i32, seen: &HashSet<String>) -> u64 {
	if exit == 0 {
		0
	} else {
		seen.len() as u64
	}
}

fn expected_probes(scenario: &str) -> &'static [&'static str] {
	match scenario {
		"reindex" => &["reindex_started", "reindex_batch", "reindex_drop_index", "gen:big_growth"],
		"struct" => &["gen:slot_reuse_prefix", "gen:log_rotation_prefix"],
		"crash" | "power" => &["log_replayed_at_open", "gen:log_rotation_prefix", "gen:index_growth_swarm", "gen:edge_keys"],
		"tree" => &["gen:tree_wide_node", "gen:tree_wide_sharing", "gen:tree_count_ops_repeated_in_tx", "gen:tree_unrepresentable_alone"],
		"kv" | "sizes" | "btree" => &["gen:slot_reuse_prefix", "gen:edge_keys"],
		"ioerr" | "drop" => &["gen:log_rotation_prefix", "gen:index_growth_swarm", "gen:many_kept_logs_prefix"],
		"logfuzz" => &["logfuzz_field_overwritten", "gen:index_growth_swarm"],
		"treelock" => &["gen:treelock_prefix"],
		"admin" => &["gen:many_columns"],
		_ => &[],
	}
}

fn rule_text(scenario: &str) -> String {
	let nt = match scenario {
		"crash" | "power" | "drop" => "at least one record was enacted, one oracle read saw a non-empty value, and at least one crash image was taken strictly inside a step (or a clean restart happened)",
		"btree" => "at least one record was enacted, one read saw a non-empty value and at least one iterator call was checked",
		"logfuzz" => "at least one mutated log image was opened and checked",
		"ioerr" => "at least one injected I/O failure fired inside a pipeline step",
		_ => "at least one log record was enacted into the tables and at least one oracle read saw a non-empty value",
	};
	format!("cases = (configuration, explicit operation list incl. fault plan) generated from the run seed (swarm: column kinds, sizes, op mix, buggify all vary per run); distinct = different FNV-64 hash of configuration+operation list; non-trivial = {nt}")
}

fn real_vs_stub() -> J {
	json!({
		"real": "every line of parity-db (db, log, column, table, index, ref_count, btree, options, migration, compress incl. lz4/snappy, fs2 locking), real kernel VFS on tmpfs, real mmap",
		"stub": "the four worker threads (the harness calls their stage functions; loops/condvars/throttling run only in schedsim), getrandom (seeded stream), durability (simdisk shadow model: fsync/fdatasync/msync make the named file durable, explicit ftruncate/create/unlink are durable in order; the kernel never loses anything)",
	})
}

fn assumptions() -> J {
	json!([
		"durability model: only fsync/fdatasync/msync(MS_SYNC) make file content durable; directory operations and explicit truncation are durable in order; torn writes inside one 4 KiB page are not simulated",
		"the metadata file and directory entries are treated as durable once written (parity-db never syncs them); noted in DESIGN.md section 8",
		"process-crash images are taken only at intercepted system calls; short reads (buggify) provide boundaries between individual table writes of one record",
		"sampling, not enumeration: a clean batch is evidence, not proof"
	])
}

pub fn main(args: &[String]) -> i32 {
	match args.get(1).map(|s| s.as_str()) {
		Some("run") => cmd_run(args),
		Some("worker") => worker(args),
		Some("check") => cmd_check(args),
		Some("replay") => cmd_replay(args),
		Some("selftest") => cmd_selftest(args),
		_ => {
			eprintln!("usage: pipesim run|worker|check|replay|selftest ...");
			2
		},
	}
}

#[allow(dead_code)]
fn unused(_: Rng) {}
