//! Scenario-specific generators: adversarial reindex keys, trees, faults, admin, rejects.

use crate::gen::Tier;
use crate::prng::Rng;
use crate::world::*;

/// Uniform column, zero salt (identity hash), 32-byte keys chosen so that
/// (i) more than 64 keys share the first 16/17/18 bits (one index page overflows, growth,
///     repeated growth, growth triggered from a reindex batch), and
/// (ii) small groups share the first 7+ bytes (same page *and* same stored partial key).
pub fn reindex_keys(r: &mut Rng, cols: &mut [ColCfg], tier: Tier) {
	for c in cols.iter_mut() {
		if c.kind != ColKind::HashUniform {
			if c.keys.is_empty() {
				let n = r.range(3, 12) as usize;
				let mut keys = Vec::new();
				while keys.len() < n {
					let mut k = vec![0u8; r.range(1, 20) as usize];
					r.fill(&mut k);
					if !keys.contains(&k) {
						keys.push(k);
					}
				}
				c.keys = keys;
			}
			continue
		}
		let mut keys: Vec<Vec<u8>> = Vec::new();
		let share_bits = match tier {
			Tier::Quick => *r.pick(&[16u32, 16, 17, 18]),
			Tier::Thorough => *r.pick(&[16u32, 17, 18, 19]),
		};
		let mut head = [0u8; 8];
		r.fill(&mut head);
		// the collision group sometimes sits in the very first / very last page of the index file
		match r.below(10) {
			0 => head = [0xff; 8],
			1 => head = [0; 8],
			_ => {},
		}
		let ngroup = r.range(60, 75) as usize + if r.chance(1, 3) { r.range(10, 70) as usize } else { 0 };
		while keys.len() < ngroup {
			let mut k = vec![0u8; 32];
			r.fill(&mut k);
			// copy the first share_bits bits of head
			let full = (share_bits / 8) as usize;
			k[..full].copy_from_slice(&head[..full]);
			let rem = share_bits % 8;
			if rem > 0 {
				let mask = 0xffu8 << (8 - rem);
				k[full] = (head[full] & mask) | (k[full] & !mask);
			}
			if r.chance(1, 10) && !keys.is_empty() {
				// same page and same partial key as an existing key; differs only in the tail
				let o = r.pick(&keys).clone();
				let share = *r.pick(&[7usize, 8, 12, 31]);
				k[..share].copy_from_slice(&o[..share]);
			}
			if !keys.contains(&k) {
				keys.push(k);
			}
		}
		// a few keys elsewhere
		for _ in 0..r.range(2, 10) {
			let mut k = vec![0u8; 32];
			r.fill(&mut k);
			if !keys.contains(&k) {
				keys.push(k);
			}
		}
		c.keys = keys;
		if c.kind.is_preimage() {
			c.preimage_vals = c.keys.iter().map(|_| ValSpec { len: 10, seed: r.next(), compressible: false }).collect();
		}
	}
}

/// Boundary pages of the index file: in some runs a few keys of the hash-indexed key-value
/// columns are replaced by keys whose hash falls into the first or the last 32 pages of the 16-bit
/// index (found by brute force under the run's salt).
pub fn edge_keys(r: &mut Rng, cfg: &mut RunCfg) {
	let salt = cfg.salt();
	for c in cfg.cols.iter_mut() {
		let uniform = c.kind == ColKind::HashUniform;
		if !(c.kind == ColKind::Hash || uniform) || c.keys.is_empty() {
			continue
		}
		if uniform && cfg.salt_zero {
			for _ in 0..r.range(1, 3) {
				let i = r.below(c.keys.len() as u64) as usize;
				let hi = r.chance(2, 3);
				let k = &mut c.keys[i];
				k[0] = if hi { 0xff } else { 0 };
				k[1] = if hi { 0xe0 | (k[1] & 0x1f) } else { k[1] & 0x1f };
			}
			let mut seen = std::collections::HashSet::new();
			c.keys.retain(|k| seen.insert(k.clone()));
			continue
		}
		for _ in 0..r.range(1, 3) {
			let i = r.below(c.keys.len() as u64) as usize;
			let hi = r.chance(2, 3);
			let len = if uniform { 32 } else { r.range(1, 40) as usize };
			for _ in 0..40_000 {
				let mut k = vec![0u8; len];
				r.fill(&mut k);
				let h = crate::structural::hash_key(&k, &salt, uniform);
				let top = u16::from_be_bytes([h[0], h[1]]);
				if (hi && top >= 0xffe0) || (!hi && top < 0x20) {
					if !c.keys.contains(&k) {
						c.keys[i] = k;
					}
					break
				}
			}
		}
	}
}

/// Generator-side bookkeeping of trees (which roots are live, what shape they have). It assumes
/// every generated commit survives; where that is wrong (after a crash that lost a suffix) the
/// executor drops inapplicable tree operations, so op lists stay valid.
#[derive(Clone, Debug, Default)]
pub struct Shape {
	pub children: Vec<Shape>,
}

pub struct TreeGen {
	/// per column: key index -> (shape of the root, root count)
	live: Vec<std::collections::BTreeMap<usize, (Shape, u32)>>,
	locked: Vec<(u8, usize)>,
}

fn gen_node_val(r: &mut Rng) -> ValSpec {
	let len = match r.below(100) {
		0..=9 => 0,
		10..=69 => r.range(1, 80) as u32,
		70..=89 => {
			let t = r.below(255) as usize;
			(crate::gen::SIZES[t] as i64 - 2 - r.range(0, 20) as i64).max(0) as u32
		},
		90..=96 => r.range(100, 5000) as u32,
		_ => r.range(32_700, 40_000) as u32,
	};
	ValSpec { len, seed: r.next(), compressible: r.chance(1, 2) }
}

impl TreeGen {
	pub fn new(cfg: &RunCfg) -> TreeGen {
		TreeGen { live: cfg.cols.iter().map(|_| Default::default()).collect(), locked: Vec::new() }
	}

	fn random_path(r: &mut Rng, shape: &Shape) -> Option<(Vec<u8>, Shape)> {
		if shape.children.is_empty() {
			return None
		}
		let mut path = Vec::new();
		let mut cur = shape;
		loop {
			let i = r.below(cur.children.len() as u64) as usize;
			path.push(i as u8);
			cur = &cur.children[i];
			if cur.children.is_empty() || r.chance(1, 2) || path.len() >= 6 {
				return Some((path, cur.clone()))
			}
		}
	}

	fn gen_tree(&self, r: &mut Rng, c: u8, depth: u32, exclude: &[usize], budget: &mut u32) -> (TreeSpec, Shape) {
		let fanout = if depth >= 4 || *budget == 0 {
			0
		} else {
			match r.below(20) {
				0..=4 => 0,
				5..=10 => r.range(1, 2),
				11..=16 => r.range(2, 4),
				17..=18 => r.range(5, 9),
				_ => if depth == 0 && r.chance(1, 2) { *r.pick(&[60u64, 120, 255]) } else { r.range(1, 3) },
			}
		} as usize;
		let mut children = Vec::new();
		let mut shapes = Vec::new();
		// a wide node: its children are leaves and do not draw on the node budget
		let wide = fanout >= 60;
		if wide {
			crate::gen::feature("tree_wide_node");
		}
		for _ in 0..fanout {
			if wide {
				if r.chance(1, 12) {
					let (t, s) = self.gen_tree(r, c, 4, exclude, &mut 0);
					children.push(ChildSpec::New(t));
					shapes.push(s);
				} else {
					children.push(ChildSpec::New(TreeSpec { data: gen_node_val(r), children: Vec::new() }));
					shapes.push(Shape { children: Vec::new() });
				}
				continue
			}
			if *budget == 0 {
				break
			}
			*budget -= 1;
			let live: Vec<(&usize, &(Shape, u32))> =
				self.live[c as usize].iter().filter(|(k, _)| !exclude.contains(k)).collect();
			if !live.is_empty() && r.chance(1, 4) {
				let (k, (shape, _)) = live[r.below(live.len() as u64) as usize];
				if let Some((path, sub)) = Self::random_path(r, shape) {
					children.push(ChildSpec::Existing { root: *k, path });
					shapes.push(sub);
					// the same node referenced several times
					if r.chance(1, 5) {
						if let Some(ChildSpec::Existing { root, path }) = children.last().cloned() {
							children.push(ChildSpec::Existing { root, path });
							shapes.push(shapes.last().unwrap().clone());
						}
					}
					continue
				}
			}
			let (t, s) = self.gen_tree(r, c, depth + 1, exclude, budget);
			children.push(ChildSpec::New(t));
			shapes.push(s);
		}
		(TreeSpec { data: gen_node_val(r), children }, Shape { children: shapes })
	}

	pub fn gen_op(&mut self, r: &mut Rng, c: u8, cc: &ColCfg, tx: &[(u8, TxOp)]) -> Option<TxOp> {
		let ColKind::Tree { append_only, rc_roots, .. } = cc.kind else { return None };
		// keys touched by tree ops of this transaction (incl. trees referenced by inserts)
		let mut touched: Vec<usize> = Vec::new();
		// keys whose root count was changed by this transaction and whose tree is still live
		let mut counted: Vec<usize> = Vec::new();
		for (tc, op) in tx {
			if *tc != c {
				continue
			}
			match op {
				TxOp::InsertTree(k, spec) => {
					touched.push(*k);
					fn refs(s: &TreeSpec, out: &mut Vec<usize>) {
						for c in &s.children {
							match c {
								ChildSpec::New(n) => refs(n, out),
								ChildSpec::Existing { root, .. } => out.push(*root),
							}
						}
					}
					refs(spec, &mut touched);
				},
				TxOp::RefTree(k) | TxOp::DerefTree(k) =>
					if rc_roots && !append_only && self.live[c as usize].contains_key(k) {
						counted.push(*k)
					} else {
						touched.push(*k)
					},
				_ => {},
			}
		}
		counted.retain(|k| !touched.contains(k));
		let live_keys: Vec<usize> = self.live[c as usize].keys().cloned().filter(|k| !touched.contains(k)).collect();
		touched.extend(counted.iter().cloned());
		let free_keys: Vec<usize> =
			(0..cc.keys.len()).filter(|k| !self.live[c as usize].contains_key(k) && !touched.contains(k)).collect();
		let mut choice = r.below(100);
		if !counted.is_empty() {
			crate::gen::feature("tree_count_ops_repeated_in_tx");
		}
		if !counted.is_empty() && r.chance(1, 2) {
			// several count changes of one tree inside one transaction
			choice = 50 + r.below(50);
		}
		if (choice < 50 || live_keys.is_empty()) && !free_keys.is_empty() {
			let k = *r.pick(&free_keys);
			// wide sharing: a new root whose children are many distinct nodes of one wide live
			// tree (hundreds of ref-count entries written by one record)
			if r.chance(1, 6) {
				let wide: Vec<(usize, usize)> = self.live[c as usize]
					.iter()
					.filter(|(kk, (sh, _))| sh.children.len() >= 40 && !touched.contains(kk))
					.map(|(kk, (sh, _))| (*kk, sh.children.len()))
					.collect();
				if !wide.is_empty() {
					let (root, n) = *r.pick(&wide);
					let take = std::cmp::min(n, 255);
					let children: Vec<ChildSpec> =
						(0..take).map(|i| ChildSpec::Existing { root, path: vec![i as u8] }).collect();
					let shapes: Vec<Shape> = (0..take).map(|i| self.live[c as usize][&root].0.children[i].clone()).collect();
					self.live[c as usize].insert(k, (Shape { children: shapes }, 1));
					crate::gen::feature("tree_wide_sharing");
					return Some(TxOp::InsertTree(k, TreeSpec { data: gen_node_val(r), children }))
				}
			}
			let mut budget = *r.pick(&[3u32, 8, 20, 60, 300]);
			let (spec, shape) = self.gen_tree(r, c, 0, &touched, &mut budget);
			self.live[c as usize].insert(k, (shape, 1));
			return Some(TxOp::InsertTree(k, spec))
		}
		if live_keys.is_empty() {
			return None
		}
		let k = if !counted.is_empty() && r.chance(2, 3) { *r.pick(&counted) } else { *r.pick(&live_keys) };
		if choice < 62 && (append_only || rc_roots) {
			if rc_roots && !append_only {
				self.live[c as usize].get_mut(&k).unwrap().1 += 1;
			}
			return Some(TxOp::RefTree(k))
		}
		if append_only || self.locked.contains(&(c, k)) && r.chance(1, 2) {
			return None
		}
		let e = self.live[c as usize].get_mut(&k).unwrap();
		if e.1 > 1 {
			e.1 -= 1;
		} else {
			self.live[c as usize].remove(&k);
		}
		Some(TxOp::DerefTree(k))
	}

	pub fn any_locked(&self) -> bool {
		!self.locked.is_empty()
	}

	pub fn on_crash(&mut self) {
		self.locked.clear();
	}

	pub fn on_restart(&mut self) {
		self.locked.clear();
	}

	pub fn gen_lock_op(&mut self, r: &mut Rng, cfg: &RunCfg) -> Option<Op> {
		if !self.locked.is_empty() && r.chance(1, 2) {
			let i = r.below(self.locked.len() as u64) as usize;
			let (c, k) = self.locked.remove(i);
			return Some(Op::UnlockTree(c, k))
		}
		let tcols: Vec<u8> = (0..cfg.cols.len()).filter(|c| cfg.cols[*c].kind.is_tree()).map(|c| c as u8).collect();
		if tcols.is_empty() {
			return None
		}
		let c = *r.pick(&tcols);
		let live: Vec<usize> = self.live[c as usize].keys().cloned().collect();
		if live.is_empty() {
			return None
		}
		let k = *r.pick(&live);
		if self.locked.contains(&(c, k)) {
			return None
		}
		if r.chance(1, 3) {
			// fetch the handle now, lock it later
			return Some(Op::TreeHandle(c, k))
		}
		self.locked.push((c, k));
		Some(Op::LockTree(c, k))
	}

	pub fn live_keys(&self, c: u8) -> Vec<usize> {
		self.live[c as usize].keys().cloned().collect()
	}
}

pub fn gen_ioerr(
	r: &mut Rng,
	cfg: &RunCfg,
	pipe: &impl crate::gen::PipeLike,
	big_max: u32,
	ts: &mut TreeGen,
) -> Option<Op> {
	let (q, a, u, d) = pipe.tuple();
	let inner = match r.below(20) {
		0..=14 => Op::Step(crate::gen::pick_stage_for(r, q, a, u, d)),
		15..=17 => Op::Restart,
		_ => Op::Commit(crate::gen::gen_valid_tx(r, cfg, big_max, ts)),
	};
	// fault index: small values dominate (most steps issue few file operations), with a tail
	let after = match r.below(10) {
		0..=5 => r.below(8),
		6..=8 => r.below(40),
		_ => r.below(400),
	} as u32;
	let tryio = r.chance(1, 2);
	let errno = *r.pick(&[libc::EIO, libc::ENOSPC, libc::EIO, libc::EMFILE]);
	let space_only = !tryio && r.chance(1, 2);
	Some(Op::IoErr { inner: Box::new(inner), after, errno, tryio, space_only })
}

pub fn gen_logfuzz(r: &mut Rng, _cfg: &RunCfg) -> Op {
	if r.chance(1, 5) {
		return Op::StashLogs
	}
	// one mutation per image: the oracle's bookkeeping of "first invalid record" is exact for a
	// single damage; combinations add little (24 of 26 reported crash-consistency bugs needed
	// three or fewer operations) and make attribution ambiguous
	let n = 1;
	let mut muts = Vec::new();
	for _ in 0..n {
		let file_sel = r.below(8) as u32;
		// offsets are taken modulo the file length; bias toward the first few hundred bytes and
		// toward the tail (where the most recent records are)
		let at = match r.below(4) {
			0 => r.below(64),
			1 => r.below(2_000),
			2 => u32::MAX as u64 - r.below(200),
			_ => r.below(1 << 24),
		} as u32;
		let m = match r.below(20) {
			0..=3 => LogMutation::Truncate { file_sel, at },
			4..=6 => LogMutation::FlipBit { file_sel, at, bit: r.below(8) as u8 },
			7..=9 => LogMutation::Field { file_sel, entry_sel: r.next() as u32, val_sel: r.below(16) as u32, seed: r.next() },
			10 => LogMutation::FlipTwo { file_sel, at, bit: r.below(8) as u8, dist: r.below(1000) as u32, bit2: r.below(8) as u8 },
			11..=12 => LogMutation::Burst { file_sel, at, xor: (r.next() as u32) | 1 },
			13..=14 => LogMutation::AppendGarbage { file_sel, len: r.below(300) as u32, seed: r.next() },
			15 => LogMutation::Delete { file_sel },
			16 => LogMutation::Duplicate { file_sel },
			17 => LogMutation::SwapNames { a: r.below(8) as u32, b: r.below(8) as u32 },
			18 => if r.chance(1, 2) { LogMutation::ZeroLen { file_sel } } else { LogMutation::SubHeader { file_sel, len: r.range(1, 8) as u8 } },
			_ => LogMutation::Stale { which: r.below(16) as u32 },
		};
		muts.push(m);
	}
	Op::LogFuzz { muts, adopt: r.chance(2, 3) }
}

pub fn gen_admin(r: &mut Rng, cfg: &RunCfg) -> Option<Op> {
	let kinds = ["hash", "hash-uniform", "hash-preimage", "hash-rc", "btree", "tree:000", "tree:100"];
	let ncols = cfg.cols.len() as u8;
	if ncols > 50 {
		// two-digit columns whose number is a prefix of a three-digit one
		let col = if r.chance(2, 3) { r.range(10, (ncols / 10).min(25) as u64) as u8 } else { r.below(ncols as u64) as u8 };
		let a = match r.below(6) {
			0..=1 => AdminOp::ResetColumn(col, if r.chance(1, 2) { Some("hash".to_string()) } else { None }),
			2..=3 => AdminOp::ClearColumn(col),
			4 => AdminOp::DropLastColumn,
			_ => AdminOp::OpenMismatch { col, field: r.below(7) as u8 },
		};
		return Some(Op::Admin(a, r.chance(1, 2)))
	}
	let a = match r.below(12) {
		0..=1 => AdminOp::AddColumn(r.pick(&kinds).to_string()),
		2 => AdminOp::DropLastColumn,
		3..=4 => AdminOp::ResetColumn(r.below(ncols as u64 + 2) as u8, if r.chance(1, 2) { Some(r.pick(&kinds).to_string()) } else { None }),
		5..=7 => AdminOp::ClearColumn(r.below(ncols as u64 + 2) as u8),
		8..=10 => AdminOp::OpenMismatch { col: r.below(8) as u8, field: r.below(7) as u8 },
		_ => AdminOp::OpenWrongCount(if r.chance(1, 2) { -1 } else { 1 }),
	};
	Some(Op::Admin(a, r.chance(1, 2)))
}

/// A tree one of whose nodes (the root or a node one or two levels down, next to ordinary
/// siblings) has more children than a node can record.
pub fn unrepresentable_tree(r: &mut Rng) -> TreeSpec {
	let leaf = |r: &mut Rng| TreeSpec { data: ValSpec { len: r.range(0, 40) as u32, seed: r.next(), compressible: false }, children: Vec::new() };
	let n = *r.pick(&[256usize, 257, 300, 511, 512]);
	let mut spec = TreeSpec {
		data: ValSpec { len: 4, seed: r.next(), compressible: false },
		children: (0..n).map(|_| ChildSpec::New(leaf(r))).collect(),
	};
	for _ in 0..r.below(3) {
		let mut children: Vec<ChildSpec> = (0..r.below(4)).map(|_| ChildSpec::New(leaf(r))).collect();
		let pos = r.below(children.len() as u64 + 1) as usize;
		children.insert(pos, ChildSpec::New(spec));
		spec = TreeSpec { data: ValSpec { len: r.range(0, 30) as u32, seed: r.next(), compressible: false }, children };
	}
	spec
}

/// Tree scenario: an insertion that cannot be represented, alone or after plain key-value
/// operations (nothing before it claims slots in a tree column).
pub fn gen_unrepresentable(r: &mut Rng, cfg: &RunCfg, ts: &TreeGen) -> Option<Op> {
	let tcols: Vec<u8> = (0..cfg.cols.len()).filter(|c| cfg.cols[*c].kind.is_tree()).map(|c| c as u8).collect();
	if tcols.is_empty() {
		return None
	}
	let c = *r.pick(&tcols);
	let live = ts.live_keys(c);
	let free: Vec<usize> = (0..cfg.cols[c as usize].keys.len()).filter(|x| !live.contains(x)).collect();
	if free.is_empty() {
		return None
	}
	let mut tx = Vec::new();
	for _ in 0..r.below(3) {
		let kc = r.below(cfg.cols.len() as u64) as u8;
		let cc = &cfg.cols[kc as usize];
		if matches!(cc.kind, ColKind::Hash | ColKind::Btree) && !cc.keys.is_empty() {
			tx.push((kc, TxOp::Set(r.below(cc.keys.len() as u64) as usize, ValSpec { len: r.range(0, 50) as u32, seed: r.next(), compressible: false })));
		}
	}
	tx.push((c, TxOp::InsertTree(*r.pick(&free), unrepresentable_tree(r))));
	crate::gen::feature("tree_unrepresentable_alone");
	Some(Op::BadCommit { tx, bg_err: false })
}

pub fn gen_reject(r: &mut Rng, cfg: &RunCfg, big_max: u32, ts: &mut TreeGen) -> Option<Op> {
	// a valid transaction (not applied to the generator's tree tracking: it will be refused)
	let mut scratch = TreeGen { live: ts.live.clone(), locked: ts.locked.clone() };
	let mut tx = crate::gen::gen_valid_tx(r, cfg, big_max, &mut scratch);
	if r.chance(1, 12) {
		return Some(Op::BadCommit { tx, bg_err: true })
	}
	let n_bad = if r.chance(1, 4) { 2 } else { 1 };
	let mut inserted = 0;
	for _ in 0..n_bad * 4 {
		if inserted >= n_bad {
			break
		}
		let c = r.below(cfg.cols.len() as u64) as u8;
		let cc = &cfg.cols[c as usize];
		if cc.keys.is_empty() {
			continue
		}
		let k = r.below(cc.keys.len() as u64) as usize;
		let leaf = TreeSpec { data: ValSpec { len: r.range(0, 40) as u32, seed: r.next(), compressible: false }, children: Vec::new() };
		let bad: Option<TxOp> = match cc.kind {
			ColKind::Hash | ColKind::HashUniform | ColKind::HashPreimage | ColKind::Btree => match r.below(5) {
				0..=1 => Some(TxOp::Ref(k)),
				2 => Some(TxOp::InsertTree(k, leaf)),
				3 => Some(TxOp::RefTree(k)),
				_ => Some(TxOp::DerefTree(k)),
			},
			ColKind::HashRc | ColKind::BtreeRc => match r.below(3) {
				0 => Some(TxOp::InsertTree(k, leaf)),
				1 => Some(TxOp::RefTree(k)),
				_ => Some(TxOp::DerefTree(k)),
			},
			ColKind::Tree { append_only, rc_roots, .. } => match r.below(6) {
				0 => Some(TxOp::Set(k, ValSpec { len: 5, seed: r.next(), compressible: false })),
				1 => Some(TxOp::Del(k)),
				2 => Some(TxOp::Ref(k)),
				3 => {
					// dereference of a missing root / of an append-only tree
					let live = ts.live_keys(c);
					let missing: Vec<usize> = (0..cc.keys.len()).filter(|x| !live.contains(x)).collect();
					if append_only && !live.is_empty() {
						Some(TxOp::DerefTree(*r.pick(&live)))
					} else if !missing.is_empty() {
						Some(TxOp::DerefTree(*r.pick(&missing)))
					} else {
						None
					}
				},
				4 =>
					if !append_only && !rc_roots {
						let live = ts.live_keys(c);
						if live.is_empty() { None } else { Some(TxOp::RefTree(*r.pick(&live))) }
					} else {
						None
					},
				_ => {
					// a node that cannot be represented: fan-out beyond 255
					let live = ts.live_keys(c);
					let free: Vec<usize> = (0..cc.keys.len()).filter(|x| !live.contains(x)).collect();
					if free.is_empty() {
						None
					} else {
						Some(TxOp::InsertTree(*r.pick(&free), unrepresentable_tree(r)))
					}
				},
			},
		};
		if let Some(b) = bad {
			let pos = r.below(tx.len() as u64 + 1) as usize;
			tx.insert(pos, (c, b));
			inserted += 1;
		}
	}
	if inserted == 0 {
		return None
	}
	Some(Op::BadCommit { tx, bg_err: false })
}
