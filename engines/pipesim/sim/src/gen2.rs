//! Scenario-specific generators: adversarial reindex keys, trees, faults, admin, rejects.

use crate::gen::Tier;
use crate::prng::Rng;
use crate::world::*;

/// Uniform column, zero salt (identity hash), 32-byte keys chosen so that
/// (i) more than 64 keys share the first 16/17/18 bits (one index page overflows, growth,
///     repeated growth, growth triggered from a reindex batch), and
/// (ii) small groups share the first 7+ bytes (same page *and* same stored partial key).
pub fn reindex_keys(r: &mut Rng, cols: &mut [ColCfg], tier: Tier) {
	for c in cols.iter_mut() {
		if c.kind != ColKind::HashUniform {
			if c.keys.is_empty() {
				let n = r.range(3, 12) as usize;
				let mut keys = Vec::new();
				while keys.len() < n {
					let mut k = vec![0u8; r.range(1, 20) as usize];
					r.fill(&mut k);
					if !keys.contains(&k) {
						keys.push(k);
					}
				}
				c.keys = keys;
			}
			continue
		}
		let mut keys: Vec<Vec<u8>> = Vec::new();
		let share_bits = match tier {
			Tier::Quick => *r.pick(&[16u32, 16, 17, 18]),
			Tier::Thorough => *r.pick(&[16u32, 17, 18, 19]),
		};
		let mut head = [0u8; 8];
		r.fill(&mut head);
		let ngroup = r.range(60, 75) as usize + if r.chance(1, 3) { r.range(10, 70) as usize } else { 0 };
		while keys.len() < ngroup {
			let mut k = vec![0u8; 32];
			r.fill(&mut k);
			// copy the first share_bits bits of head
			let full = (share_bits / 8) as usize;
			k[..full].copy_from_slice(&head[..full]);
			let rem = share_bits % 8;
			if rem > 0 {
				let mask = 0xffu8 << (8 - rem);
				k[full] = (head[full] & mask) | (k[full] & !mask);
			}
			if r.chance(1, 10) && !keys.is_empty() {
				// same page and same partial key as an existing key; differs only in the tail
				let o = r.pick(&keys).clone();
				let share = *r.pick(&[7usize, 8, 12, 31]);
				k[..share].copy_from_slice(&o[..share]);
			}
			if !keys.contains(&k) {
				keys.push(k);
			}
		}
		// a few keys elsewhere
		for _ in 0..r.range(2, 10) {
			let mut k = vec![0u8; 32];
			r.fill(&mut k);
			if !keys.contains(&k) {
				keys.push(k);
			}
		}
		c.keys = keys;
		if c.kind.is_preimage() {
			c.preimage_vals = c.keys.iter().map(|_| ValSpec { len: 10, seed: r.next(), compressible: false }).collect();
		}
	}
}

/// Generator-side bookkeeping of trees (which roots are live, what shape they have).
pub struct TreeGen {
	locked: Vec<(u8, usize)>,
}

impl TreeGen {
	pub fn new(_cfg: &RunCfg) -> TreeGen {
		TreeGen { locked: Vec::new() }
	}
	pub fn gen_op(&mut self, _r: &mut Rng, _c: u8, _cc: &ColCfg, _tx: &[(u8, TxOp)]) -> Option<TxOp> {
		None
	}
	pub fn any_locked(&self) -> bool {
		!self.locked.is_empty()
	}
	pub fn on_crash(&mut self) {}
	pub fn gen_lock_op(&mut self, _r: &mut Rng, _cfg: &RunCfg) -> Option<Op> {
		None
	}
}

pub fn gen_ioerr(
	_r: &mut Rng,
	_cfg: &RunCfg,
	_pipe: &impl crate::gen::PipeLike,
	_big_max: u32,
	_ts: &mut TreeGen,
) -> Option<Op> {
	None
}

pub fn gen_logfuzz(_r: &mut Rng, _cfg: &RunCfg) -> Op {
	Op::Drain
}

pub fn gen_admin(_r: &mut Rng, _cfg: &RunCfg) -> Option<Op> {
	None
}

pub fn gen_reject(_r: &mut Rng, _cfg: &RunCfg, _big_max: u32, _ts: &mut TreeGen) -> Option<Op> {
	None
}
