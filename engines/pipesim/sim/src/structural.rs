//! Independent parser of table / index / ref-count files (C14).
//!
//! Nothing here calls into parity-db: the file formats are re-implemented from the layout
//! comments in table.rs / index.rs / ref_count.rs / btree. Run at drained points (no overlay
//! holds data), after clean reopen and after recovery.

use crate::exec::Exec;
use crate::gen::SIZES;
use crate::simdisk::{read_sparse, Shadow, PAGE};
use crate::world::*;
use std::collections::{BTreeMap, HashMap, HashSet};

const MULTIPART_ENTRY_SIZE: usize = 4096;
const META_SIZE: u64 = 16 * 1024;
const CHUNK_LEN: u64 = 512;

pub struct TableView {
	pub tier: u8,
	pub entry_size: usize,
	data: Vec<u8>,
	pub filled: u64,
	pub last_removed: u64,
}

impl TableView {
	pub fn raw_entry(&self, idx: u64) -> Option<&[u8]> {
		self.entry(idx)
	}
	fn entry(&self, idx: u64) -> Option<&[u8]> {
		let off = idx as usize * self.entry_size;
		if off + self.entry_size > self.data.len() {
			return None
		}
		Some(&self.data[off..off + self.entry_size])
	}
}

fn is_tomb(e: &[u8]) -> bool {
	e[0] == 0xff && e[1] == 0xff
}
fn is_multipart(e: &[u8]) -> bool {
	e[0] == 0xfe && e[1] == 0xff
}
fn is_multihead(e: &[u8]) -> bool {
	(e[0] == 0xfd && e[1] == 0xff) || (e[0] == 0xfd && e[1] == 0x7f)
}

fn u64le(b: &[u8]) -> u64 {
	u64::from_le_bytes(b[..8].try_into().unwrap())
}

pub fn load_tables(dir: &str, col: usize) -> BTreeMap<u8, TableView> {
	let mut out = BTreeMap::new();
	for tier in 0..=255u8 {
		let path = format!("{}/table_{:02}_{:02x}", dir, col, tier);
		let Ok(data) = std::fs::read(&path) else { continue };
		let entry_size = if tier == 255 { MULTIPART_ENTRY_SIZE } else { SIZES[tier as usize] as usize };
		if data.len() < 16 {
			continue
		}
		let last_removed = u64le(&data[0..8]);
		let mut filled = u64le(&data[8..16]);
		if filled == 0 {
			filled = 1;
		}
		out.insert(tier, TableView { tier, entry_size, data, filled, last_removed });
	}
	out
}

/// Decoded stored value (structure only).
pub struct Stored {
	pub rc: u32,
	pub key26: Option<Vec<u8>>,
	pub payload: Vec<u8>,
	pub compressed: bool,
	pub slots: Vec<(u8, u64)>,
}

/// Read the value chain starting at (tier, idx).
pub fn read_stored(
	tables: &BTreeMap<u8, TableView>,
	tier: u8,
	idx: u64,
	has_key: bool,
	has_rc: bool,
) -> Result<Stored, String> {
	let t = tables.get(&tier).ok_or_else(|| format!("address names missing table tier {tier:02x}"))?;
	if idx == 0 || idx >= t.filled {
		return Err(format!("slot {idx} of tier {tier:02x} is outside 1..{}", t.filled))
	}
	let e = t.entry(idx).ok_or_else(|| format!("slot {idx} of tier {tier:02x} beyond file end"))?;
	if is_tomb(e) {
		return Err(format!("slot {idx} of tier {tier:02x} is a tombstone"))
	}
	if is_multipart(e) {
		return Err(format!("slot {idx} of tier {tier:02x} is a continuation part, not a head"))
	}
	let hdr = if has_rc { 4 } else { 0 } + if has_key { 26 } else { 0 };
	let mut slots = vec![(tier, idx)];
	if tier == 255 && is_multihead(e) {
		let compressed = e[1] == 0x7f;
		let mut next = u64le(&e[2..10]);
		let mut off = 10;
		let rc = if has_rc {
			let r = u32::from_le_bytes(e[off..off + 4].try_into().unwrap());
			off += 4;
			r
		} else {
			1
		};
		let key26 = if has_key {
			let k = e[off..off + 26].to_vec();
			off += 26;
			Some(k)
		} else {
			None
		};
		let mut payload = e[off..].to_vec();
		let mut guard = 0;
		loop {
			guard += 1;
			if guard > 100_000 {
				return Err("multipart chain does not terminate".into())
			}
			if next == 0 || next >= t.filled {
				return Err(format!("multipart chain points to slot {next} outside 1..{}", t.filled))
			}
			let p = t.entry(next).ok_or_else(|| "chain beyond file end".to_string())?;
			if is_tomb(p) {
				return Err(format!("multipart chain of head {idx} runs into tombstone {next}"))
			}
			if slots.contains(&(tier, next)) {
				return Err(format!("multipart chain of head {idx} is cyclic at {next}"))
			}
			slots.push((tier, next));
			if is_multipart(p) {
				payload.extend_from_slice(&p[10..]);
				next = u64le(&p[2..10]);
			} else {
				let size = (u16::from_le_bytes([p[0], p[1]]) & 0x7fff) as usize;
				if 2 + size > p.len() {
					return Err(format!("last part {next} has size {size} beyond the entry"))
				}
				payload.extend_from_slice(&p[2..2 + size]);
				break
			}
		}
		return Ok(Stored { rc, key26, payload, compressed, slots })
	}
	let sz = u16::from_le_bytes([e[0], e[1]]);
	let compressed = sz & 0x8000 != 0;
	let size = (sz & 0x7fff) as usize;
	if size < hdr || 2 + size > e.len() {
		return Err(format!("slot {idx} of tier {tier:02x}: size field {size} inconsistent (header {hdr}, entry {})", e.len()))
	}
	let mut off = 2;
	let rc = if has_rc {
		let r = u32::from_le_bytes(e[off..off + 4].try_into().unwrap());
		off += 4;
		r
	} else {
		1
	};
	let key26 = if has_key {
		let k = e[off..off + 26].to_vec();
		off += 26;
		Some(k)
	} else {
		None
	};
	let payload = e[off..2 + size].to_vec();
	Ok(Stored { rc, key26, payload, compressed, slots })
}

/// Free list + slot classification for one table. Returns (free set, findings).
fn check_free_list(col: usize, t: &TableView, out: &mut Vec<(String, String)>) -> HashSet<u64> {
	let mut free = HashSet::new();
	if t.last_removed >= t.filled {
		out.push((
			"free-list-out-of-range".into(),
			format!("col {col} tier {:02x}: header last_removed {} >= filled {}", t.tier, t.last_removed, t.filled),
		));
		return free
	}
	let mut next = t.last_removed;
	while next != 0 {
		if next >= t.filled {
			out.push((
				"free-list-out-of-range".into(),
				format!("col {col} tier {:02x}: free list reaches slot {next} >= filled {}", t.tier, t.filled),
			));
			break
		}
		if !free.insert(next) {
			out.push(("free-list-cyclic".into(), format!("col {col} tier {:02x}: free list visits slot {next} twice", t.tier)));
			break
		}
		let Some(e) = t.entry(next) else {
			out.push(("free-list-out-of-range".into(), format!("col {col} tier {:02x}: free slot {next} beyond file end", t.tier)));
			break
		};
		if !is_tomb(e) {
			out.push((
				"free-list-live-slot".into(),
				format!("col {col} tier {:02x}: free list contains slot {next} which is not a tombstone", t.tier),
			));
			break
		}
		next = u64le(&e[2..10]);
	}
	for idx in 1..t.filled {
		if let Some(e) = t.entry(idx) {
			if is_tomb(e) && !free.contains(&idx) {
				out.push((
					"slot-leaked".into(),
					format!("col {col} tier {:02x}: slot {idx} is a tombstone but not on the free list (neither live nor free)", t.tier),
				));
				break
			}
		}
	}
	free
}

// -- index files ------------------------------------------------------------------------------

pub struct IndexView {
	pub bits: u8,
	sparse: Shadow,
}

pub fn load_indexes(dir: &str, col: usize) -> Vec<IndexView> {
	let mut v = Vec::new();
	for bits in 16..=40u8 {
		let path = format!("{}/index_{:02}_{}", dir, col, bits);
		if std::path::Path::new(&path).exists() {
			v.push(IndexView { bits, sparse: read_sparse(&path) });
		}
	}
	v
}

impl IndexView {
	/// All non-empty entries: (chunk, slot, partial_key, tier, offset)
	pub fn entries(&self) -> Vec<(u64, u8, u64, u8, u64)> {
		let mut out = Vec::new();
		let addr_bits = self.bits as u32 + 6 + 8;
		let mut pages: Vec<&u64> = self.sparse.pages.keys().collect();
		pages.sort();
		for p in pages {
			let base = *p * PAGE as u64;
			let pg = &self.sparse.pages[p];
			for i in 0..(PAGE / 8) {
				let off = base + (i * 8) as u64;
				if off < META_SIZE {
					continue
				}
				let v = u64le(&pg[i * 8..i * 8 + 8]);
				if v == 0 {
					continue
				}
				let rel = off - META_SIZE;
				let chunk = rel / CHUNK_LEN;
				let slot = ((rel % CHUNK_LEN) / 8) as u8;
				let address = v & ((1u64 << addr_bits) - 1);
				let pk = v >> addr_bits;
				out.push((chunk, slot, pk, (address & 0xff) as u8, address >> 8));
			}
		}
		out
	}
	fn chunk(&self, chunk: u64) -> Vec<u64> {
		let mut out = Vec::with_capacity(64);
		for i in 0..64u64 {
			let off = META_SIZE + chunk * CHUNK_LEN + i * 8;
			let p = off / PAGE as u64;
			let v = match self.sparse.pages.get(&p) {
				Some(pg) => u64le(&pg[(off % PAGE as u64) as usize..]),
				None => 0,
			};
			out.push(v);
		}
		out
	}
	/// Addresses of candidate entries for a hashed key.
	pub fn lookup(&self, hash: &[u8; 32]) -> Vec<(u8, u64)> {
		let prefix = u64::from_be_bytes(hash[0..8].try_into().unwrap());
		let chunk = prefix >> (64 - self.bits as u32);
		let addr_bits = self.bits as u32 + 6 + 8;
		let pk = (prefix << self.bits) >> addr_bits;
		let mut out = Vec::new();
		for v in self.chunk(chunk) {
			if v != 0 && (v >> addr_bits) == pk {
				let address = v & ((1u64 << addr_bits) - 1);
				out.push(((address & 0xff) as u8, address >> 8));
			}
		}
		out
	}
}

pub fn hash_key(key: &[u8], salt: &[u8; 32], uniform: bool) -> [u8; 32] {
	let mut k = [0u8; 32];
	if uniform {
		if salt == &[0u8; 32] {
			k.copy_from_slice(&key[..32]);
			return k
		}
		use siphasher::sip128::Hasher128;
		use std::hash::Hasher;
		let mut h = siphasher::sip128::SipHasher13::new_with_key(salt[..16].try_into().unwrap());
		h.write(key);
		let r = h.finish128();
		k[0..8].copy_from_slice(&r.h1.to_le_bytes());
		k[8..16].copy_from_slice(&r.h2.to_le_bytes());
		k[16..].copy_from_slice(&key[16..32]);
	} else {
		use blake2::digest::{typenum::U32, FixedOutput, Update};
		let mut ctx = blake2::Blake2bMac::<U32>::new_with_salt_and_personal(salt, &[], &[]).unwrap();
		ctx.update(key);
		k.copy_from_slice(&ctx.finalize_fixed());
	}
	k
}

// -- btree ------------------------------------------------------------------------------------

struct BtreeWalk<'a> {
	tables: &'a BTreeMap<u8, TableView>,
	has_rc: bool,
	reached: HashSet<(u8, u64)>,
	keys: Vec<Vec<u8>>,
	leaf_depths: HashSet<u32>,
	errors: Vec<String>,
	nodes: u64,
}

impl<'a> BtreeWalk<'a> {
	fn node(&mut self, addr: u64, level: u32, depth: u32) {
		if self.errors.len() > 3 || self.nodes > 200_000 {
			return
		}
		self.nodes += 1;
		let (tier, off) = ((addr & 0xff) as u8, addr >> 8);
		let st = match read_stored(self.tables, tier, off, false, self.has_rc) {
			Ok(s) => s,
			Err(e) => {
				self.errors.push(format!("btree node at {tier:02x}:{off}: {e}"));
				return
			},
		};
		for s in &st.slots {
			if !self.reached.insert(*s) {
				self.errors.push(format!("btree slot {:02x}:{} is used twice", s.0, s.1));
			}
		}
		let p = &st.payload;
		let mut pos = 0usize;
		let mut children: Vec<u64> = Vec::new();
		let mut seps: Vec<(u64, Vec<u8>)> = Vec::new();
		loop {
			if pos + 8 > p.len() {
				break
			}
			children.push(u64le(&p[pos..]));
			pos += 8;
			if children.len() == 9 {
				break
			}
			if pos == p.len() {
				break
			}
			if pos + 9 > p.len() {
				self.errors.push(format!("btree node at {tier:02x}:{off}: unaligned separator"));
				return
			}
			let val = u64le(&p[pos..]);
			pos += 8;
			let head = p[pos];
			pos += 1;
			let klen = if head == 255 {
				if pos + 4 > p.len() {
					self.errors.push("btree node: cannot read key size".into());
					return
				}
				let l = u32::from_le_bytes(p[pos..pos + 4].try_into().unwrap()) as usize;
				pos += 4;
				l
			} else {
				head as usize
			};
			if pos + klen > p.len() {
				self.errors.push("btree node: key beyond entry".into());
				return
			}
			let key = p[pos..pos + klen].to_vec();
			pos += klen;
			if val == 0 {
				break
			}
			seps.push((val, key));
		}
		let is_leaf = level == depth;
		if is_leaf {
			self.leaf_depths.insert(level);
			if children.iter().any(|c| *c != 0) {
				self.errors.push(format!("btree leaf at {tier:02x}:{off} (level {level}) has a child pointer"));
			}
		}
		for i in 0..=seps.len() {
			if !is_leaf {
				let c = children.get(i).cloned().unwrap_or(0);
				if c == 0 {
					self.errors.push(format!(
						"btree inner node at {tier:02x}:{off} (level {level} of depth {depth}) lacks child {i} of {}",
						seps.len() + 1
					));
				} else {
					self.node(c, level + 1, depth);
				}
			}
			if i < seps.len() {
				let (val, key) = &seps[i];
				self.keys.push(key.clone());
				let (vt, vo) = ((val & 0xff) as u8, val >> 8);
				match read_stored(self.tables, vt, vo, false, self.has_rc) {
					Ok(s) =>
						for sl in &s.slots {
							if !self.reached.insert(*sl) {
								self.errors.push(format!("btree value slot {:02x}:{} is used twice", sl.0, sl.1));
							}
						},
					Err(e) => self.errors.push(format!("btree value of key {}: {e}", hex(&key[..key.len().min(8)]))),
				}
			}
		}
	}
}

// -- entry point ------------------------------------------------------------------------------

pub fn check_dir(dir: &str, ex: &Exec) -> Vec<(String, String)> {
	let mut out: Vec<(String, String)> = Vec::new();
	let salt = ex.cfg.salt();
	for col in 0..ex.col_kinds.len() {
		let kind = ex.col_kinds[col];
		let tables = load_tables(dir, col);
		let mut free: HashMap<u8, HashSet<u64>> = HashMap::new();
		for (tier, t) in &tables {
			free.insert(*tier, check_free_list(col, t, &mut out));
		}
		if !out.is_empty() {
			return out
		}
		let has_rc = kind.is_rc() || matches!(kind, ColKind::Tree { rc_roots: true, .. });
		if kind.is_tree() {
			crate::treeops::structural(dir, ex, col, &tables, &free, &mut out);
			continue
		}
		if kind.is_btree() {
			// header at slot 1 of tier 0
			let hdr = match read_stored(&tables, 0, 1, false, has_rc) {
				Ok(h) => h,
				Err(e) => {
					out.push(("btree-header".into(), format!("col {col}: btree header unreadable: {e}")));
					continue
				},
			};
			if hdr.payload.len() < 12 {
				out.push(("btree-header".into(), format!("col {col}: btree header too short")));
				continue
			}
			let root = u64le(&hdr.payload[0..8]);
			let depth = u32::from_le_bytes(hdr.payload[8..12].try_into().unwrap());
			let mut w = BtreeWalk {
				tables: &tables,
				has_rc,
				reached: HashSet::new(),
				keys: Vec::new(),
				leaf_depths: HashSet::new(),
				errors: Vec::new(),
				nodes: 0,
			};
			w.reached.insert((0, 1));
			if root != 0 {
				w.node(root, 0, depth);
			}
			for e in w.errors.iter().take(2) {
				out.push(("btree-structure".into(), format!("col {col}: {e}")));
			}
			if !w.errors.is_empty() {
				continue
			}
			if w.keys.windows(2).any(|p| p[0] >= p[1]) {
				out.push(("btree-unsorted".into(), format!("col {col}: keys of the on-disk tree are not strictly ascending in in-order traversal")));
			}
			if w.leaf_depths.len() > 1 || (root != 0 && !w.leaf_depths.contains(&depth)) {
				out.push((
					"btree-depth".into(),
					format!("col {col}: leaves found at levels {:?}, header records depth {depth}", w.leaf_depths),
				));
			}
			if let ColModel::Kv(m) = &ex.cur[col] {
				let want: Vec<&Vec<u8>> = m.map.keys().collect();
				if want.len() != w.keys.len() || want.iter().zip(w.keys.iter()).any(|(a, b)| **a != *b) {
					out.push((
						"btree-keys".into(),
						format!("col {col}: on-disk tree holds {} keys, model has {}", w.keys.len(), want.len()),
					));
				}
			}
			// every live slot must be reachable
			'outer: for (tier, t) in &tables {
				for idx in 1..t.filled {
					if let Some(e) = t.entry(idx) {
						if !is_tomb(e) && !w.reached.contains(&(*tier, idx)) {
							out.push((
								"slot-unreachable".into(),
								format!("col {col} tier {tier:02x}: slot {idx} is neither free nor reachable from the btree root (leaked node or value)"),
							));
							break 'outer
						}
					}
				}
			}
			continue
		}
		// hash key-value column
		let indexes = load_indexes(dir, col);
		let uniform = kind == ColKind::HashUniform;
		// (a) every index entry: collect addresses; classify leftovers
		let mut addressed: HashSet<(u8, u64)> = HashSet::new();
		for ix in &indexes {
			for (_chunk, _slot, _pk, tier, off) in ix.entries() {
				addressed.insert((tier, off));
			}
		}
		// (b) every live slot: decode heads, mark chain parts
		let mut in_chain: HashSet<(u8, u64)> = HashSet::new();
		let mut live_heads: Vec<(u8, u64, Stored)> = Vec::new();
		for (tier, t) in &tables {
			for idx in 1..t.filled {
				let Some(e) = t.entry(idx) else { continue };
				if is_tomb(e) || is_multipart(e) {
					continue
				}
				if *tier == 255 && !is_multihead(e) {
					// single entry or last part: decided after chains are walked
					continue
				}
				match read_stored(&tables, *tier, idx, true, has_rc) {
					Ok(s) => {
						for sl in s.slots.iter().skip(1) {
							if !in_chain.insert(*sl) {
								out.push(("slot-double-used".into(), format!("col {col}: slot {:02x}:{} belongs to two value chains", sl.0, sl.1)));
							}
						}
						live_heads.push((*tier, idx, s));
					},
					Err(e) => out.push(("value-chain".into(), format!("col {col}: {e}"))),
				}
			}
		}
		if let Some(t) = tables.get(&255) {
			for idx in 1..t.filled {
				let Some(e) = t.entry(idx) else { continue };
				if is_tomb(e) || is_multihead(e) {
					continue
				}
				if is_multipart(e) {
					if !in_chain.contains(&(255, idx)) {
						out.push((
							"slot-leaked".into(),
							format!("col {col} tier ff: continuation part {idx} is not part of any live value chain and not free"),
						));
					}
					continue
				}
				if in_chain.contains(&(255, idx)) {
					continue
				}
				match read_stored(&tables, 255, idx, true, has_rc) {
					Ok(s) => live_heads.push((255, idx, s)),
					Err(e) => out.push(("value-chain".into(), format!("col {col}: {e}"))),
				}
			}
		}
		if !out.is_empty() {
			return out
		}
		// (c) no orphan value
		for (tier, idx, _) in &live_heads {
			if !addressed.contains(&(*tier, *idx)) {
				out.push((
					"value-orphan".into(),
					format!("col {col} tier {tier:02x}: live value at slot {idx} is not referenced by any index entry"),
				));
				break
			}
		}
		// (d) count
		if let ColModel::Kv(m) = &ex.cur[col] {
			if m.map.len() != live_heads.len() {
				out.push((
					"live-count".into(),
					format!("col {col} [{}]: {} live value chains on disk, model has {} live keys", kind.name(), live_heads.len(), m.map.len()),
				));
			}
			// (e) every live key reachable through an index, resolving to an entry with its key
			for key in m.map.keys() {
				if uniform && key.len() < 32 {
					continue
				}
				let h = hash_key(key, &salt, uniform);
				let mut found = false;
				'ix: for ix in indexes.iter().rev() {
					for (tier, off) in ix.lookup(&h) {
						if let Ok(s) = read_stored(&tables, tier, off, true, has_rc) {
							if s.key26.as_deref() == Some(&h[6..32]) {
								found = true;
								break 'ix
							}
						}
					}
				}
				if !found {
					out.push((
						"key-unreachable".into(),
						format!("col {col}: live key {} cannot be reached through any index file", hex(&key[..key.len().min(8)])),
					));
					break
				}
			}
		}
	}
	out
}
