//! Independent parser of table / index / ref-count files (C14). Filled in later.
use crate::exec::Exec;

pub fn check_dir(_dir: &str, _ex: &Exec) -> Vec<(String, String)> {
	Vec::new()
}
