//! Seeded generation of configurations and operation lists (swarm style: everything varies
//! per run). A pure function of (scenario, tier, run seed).

use crate::prng::Rng;
use crate::world::*;

pub const SIZES: [u16; 255] = [
	32, 33, 34, 35, 36, 37, 38, 39, 40, 41, 42, 43, 44, 46, 47, 48, 50, 51, 52, 54, 55, 57, 58, 60,
	62, 63, 65, 67, 69, 71, 73, 75, 77, 79, 81, 83, 85, 88, 90, 93, 95, 98, 101, 103, 106, 109,
	112, 115, 119, 122, 125, 129, 132, 136, 140, 144, 148, 152, 156, 160, 165, 169, 174, 179, 183,
	189, 194, 199, 205, 210, 216, 222, 228, 235, 241, 248, 255, 262, 269, 276, 284, 292, 300, 308,
	317, 325, 334, 344, 353, 363, 373, 383, 394, 405, 416, 428, 439, 452, 464, 477, 490, 504, 518,
	532, 547, 562, 577, 593, 610, 627, 644, 662, 680, 699, 718, 738, 758, 779, 801, 823, 846, 869,
	893, 918, 943, 969, 996, 1024, 1052, 1081, 1111, 1142, 1174, 1206, 1239, 1274, 1309, 1345,
	1382, 1421, 1460, 1500, 1542, 1584, 1628, 1673, 1720, 1767, 1816, 1866, 1918, 1971, 2025, 2082,
	2139, 2198, 2259, 2322, 2386, 2452, 2520, 2589, 2661, 2735, 2810, 2888, 2968, 3050, 3134, 3221,
	3310, 3402, 3496, 3593, 3692, 3794, 3899, 4007, 4118, 4232, 4349, 4469, 4593, 4720, 4850, 4984,
	5122, 5264, 5410, 5559, 5713, 5871, 6034, 6200, 6372, 6548, 6729, 6916, 7107, 7303, 7506, 7713,
	7927, 8146, 8371, 8603, 8841, 9085, 9337, 9595, 9860, 10133, 10413, 10702, 10998, 11302, 11614,
	11936, 12266, 12605, 12954, 13312, 13681, 14059, 14448, 14848, 15258, 15681, 16114, 16560,
	17018, 17489, 17973, 18470, 18981, 19506, 20046, 20600, 21170, 21756, 22358, 22976, 23612,
	24265, 24936, 25626, 26335, 27064, 27812, 28582, 29372, 30185, 31020, 31878, 32760,
];

#[derive(Clone, Copy, Debug, PartialEq, Eq)]
pub enum Tier {
	Quick,
	Thorough,
}

/// Payload capacity of size tier `t` for a column kind.
pub fn cap(t: usize, kind: ColKind) -> i64 {
	let hdr = 2 + if kind.is_btree() || kind.is_tree() { 0 } else { 26 } + if kind.is_rc() { 4 } else { 0 };
	SIZES[t] as i64 - hdr
}

pub fn gen_val_len(r: &mut Rng, kind: ColKind, big_max: u32) -> u32 {
	match r.below(100) {
		0..=9 => r.below(4) as u32,         // empty / tiny
		10..=39 => r.range(1, 120) as u32,  // small
		40..=74 => {
			// around a size-tier boundary
			let t = r.below(255) as usize;
			let c = cap(t, kind) + r.range(0, 2) as i64 - 1;
			c.max(0) as u32
		},
		75..=84 => {
			// around the single/multipart boundary
			let c = cap(254, kind) + r.range(0, 6) as i64 - 3;
			c.max(0) as u32
		},
		85..=93 => r.range(120, 6000) as u32,
		_ => r.range(30_000, big_max as u64) as u32,
	}
}

thread_local! {
	/// Per-run palette of value lengths (swarm): most values of a run reuse a few lengths so that
	/// freed slots of a size tier get reused and overwrite cycles return to the same sizes.
	static PALETTE: std::cell::RefCell<Vec<u32>> = std::cell::RefCell::new(Vec::new());
}

fn set_palette(r: &mut Rng, kind: ColKind, big_max: u32) {
	let n = *r.pick(&[0usize, 2, 3, 5, 8, 16]);
	let v: Vec<u32> = (0..n).map(|_| gen_val_len(r, kind, big_max)).collect();
	PALETTE.with(|p| *p.borrow_mut() = v);
}

fn gen_val(r: &mut Rng, kind: ColKind, big_max: u32) -> ValSpec {
	let from_palette = PALETTE.with(|p| {
		let p = p.borrow();
		if !p.is_empty() && r.chance(4, 5) {
			Some(p[r.below(p.len() as u64) as usize])
		} else {
			None
		}
	});
	let len = match from_palette {
		Some(l) => l,
		None => gen_val_len(r, kind, big_max),
	};
	ValSpec { len, seed: r.next(), compressible: r.chance(1, 2) }
}

fn key_with(id: u32, len: usize, fill: u8) -> Vec<u8> {
	let mut k = Vec::with_capacity(len);
	let idb = id.to_be_bytes();
	k.extend_from_slice(&idb[..std::cmp::min(len, 4)]);
	while k.len() < len {
		k.push(fill);
	}
	k
}

fn gen_keys(r: &mut Rng, kind: ColKind, n: usize, salt_zero: bool, long_keys: bool) -> Vec<Vec<u8>> {
	let mut keys: Vec<Vec<u8>> = Vec::new();
	let mut id = 0u32;
	while keys.len() < n {
		id += 1;
		let k = match kind {
			ColKind::HashUniform =>
				if salt_zero {
					// identity hash: exactly 32 bytes; spread or collide on the first bytes
					let mut k = vec![0u8; 32];
					r.fill(&mut k);
					if r.chance(1, 3) && !keys.is_empty() {
						// same index page (first 16 bits) and same partial key (first 8 bytes)
						let other = r.pick(&keys).clone();
						let share = *r.pick(&[2usize, 3, 7, 8, 16]);
						k[..share].copy_from_slice(&other[..share]);
					} else if r.chance(1, 8) && !keys.is_empty() {
						// same page as an existing key, the 32 bits after the page bits all zero (the part a
						// vectorised page search compares), the two bits after them not
						let other = r.pick(&keys).clone();
						k[..2].copy_from_slice(&other[..2]);
						for b in &mut k[2..6] {
							*b = 0;
						}
						k[6] = *r.pick(&[0x40u8, 0x80, 0xC0]);
					}
					k
				} else {
					let len = *r.pick(&[32usize, 32, 33, 40, 64, 100]);
					let mut k = vec![0u8; len];
					r.fill(&mut k);
					if r.chance(1, 4) && !keys.is_empty() {
						// same 32-byte head, differing tail: the hash covers only... all bytes (sip)
						let other = r.pick(&keys).clone();
						let m = std::cmp::min(other.len(), len);
						k[..m.min(32)].copy_from_slice(&other[..m.min(32)]);
					}
					k
				},
			ColKind::Btree | ColKind::BtreeRc => {
				match r.below(20) {
					0 => Vec::new(),
					1 => vec![r.below(256) as u8],
					2 => key_with(id, 254, 0xAA),
					3 => key_with(id, 255, 0xAB),
					4 => key_with(id, 256, 0xAC),
					5 | 6 if !keys.is_empty() => {
						// proper prefix or extension of an existing key
						let o = r.pick(&keys).clone();
						if r.chance(1, 2) && !o.is_empty() {
							o[..r.below(o.len() as u64) as usize].to_vec()
						} else {
							let mut e = o.clone();
							e.push(r.below(256) as u8);
							e
						}
					},
					7 if long_keys => key_with(id, 65_536 + r.below(2000) as usize, 0x5A),
					8 => key_with(id, r.range(200, 2000) as usize, 0x42),
					_ => {
						let len = r.range(1, 24) as usize;
						let mut k = vec![0u8; len];
						r.fill(&mut k);
						if r.chance(1, 2) {
							// cluster keys so that ordering between neighbours matters
							k[0] = b'k';
						}
						k
					},
				}
			},
			_ => match r.below(16) {
				0 => Vec::new(),
				1 => vec![r.below(256) as u8],
				2 => key_with(id, 31, 1),
				3 => key_with(id, 32, 2),
				4 => key_with(id, 33, 3),
				5 => key_with(id, 250, 4),
				6 => key_with(id, r.range(254, 257) as usize, 5),
				7 if long_keys => key_with(id, r.range(1024, 70_000) as usize, 6),
				_ => {
					let len = r.range(1, 40) as usize;
					let mut k = vec![0u8; len];
					r.fill(&mut k);
					k
				},
			},
		};
		if !keys.contains(&k) {
			keys.push(k);
		}
	}
	keys
}

pub struct Weights {
	pub commit: u32,
	pub step: u32,
	pub restart: u32,
	pub drain: u32,
	pub crash: u32,
	pub iter: u32,
	pub ioerr: u32,
	pub logfuzz: u32,
	pub locktree: u32,
	pub admin: u32,
	pub reject: u32,
}

/// Abstract pipeline tracker used only to bias generation toward states with in-flight work.
#[derive(Default, Clone)]
struct Pipe {
	queued: u32,
	appending: u32,
	unread: u32,
	dirty: u32,
	reindex_bias: bool,
}

impl Pipe {
	fn apply(&mut self, op: &Op) {
		match op {
			Op::Commit(_) => self.queued += 1,
			Op::Step(Stage::ProcessCommits) =>
				if self.queued > 0 {
					self.queued -= 1;
					self.appending += 1;
				},
			Op::Step(Stage::ProcessReindex) => {},
			Op::Step(Stage::Flush) =>
				if self.appending > 0 {
					self.appending = 0;
					self.unread += 1;
				},
			Op::Step(Stage::EnactAll) =>
				if self.unread > 0 {
					self.unread -= 1;
					self.dirty += 1;
				},
			Op::Step(Stage::EnactOne) => {},
			Op::Step(Stage::Clean) => self.dirty = 0,
			Op::Restart | Op::Drain | Op::Crash { .. } | Op::LogFuzz { .. } | Op::IoErr { .. } =>
				*self = Pipe { reindex_bias: self.reindex_bias, ..Pipe::default() },
			_ => {},
		}
	}
	fn pick_stage(&self, r: &mut Rng) -> Stage {
		let w = [
			if self.queued > 0 { 40 } else { 4 },
			if self.reindex_bias { 22 } else { 6 },
			if self.appending > 0 { 25 } else { 3 },
			if self.unread > 0 { 14 } else { 2 },
			if self.unread > 0 { 16 } else { 2 },
			if self.dirty > 0 { 12 } else { 2 },
		];
		STAGES[r.weighted(&w)]
	}
}

thread_local! {
	/// Generator features used by the last `gen` call (reach probes `gen:<feature>`).
	pub static FEATURES: std::cell::RefCell<Vec<&'static str>> = std::cell::RefCell::new(Vec::new());
}

pub fn feature(name: &'static str) {
	FEATURES.with(|f| {
		let mut f = f.borrow_mut();
		if !f.contains(&name) {
			f.push(name)
		}
	});
}

pub fn scenario_for(prop: &str) -> &'static str {
	match prop {
		"C01" => "kv",
		"C02" => "crash",
		"C03" => "drop",
		"C04" => "btree",
		"C06" => "sizes",
		"C07" => "rc",
		"C08" => "reject",
		"C09" => "reindex",
		"C10" => "tree",
		"C11" => "treelock",
		"C12" => "power",
		"C13" => "logfuzz",
		"C14" => "struct",
		"C16" => "ioerr",
		"C17" => "admin",
		"C20" => "migrate",
		_ => "kv",
	}
}

fn kinds_for(scenario: &str, r: &mut Rng) -> Vec<ColKind> {
	let tree_kind = |r: &mut Rng| match r.below(4) {
		0 => ColKind::Tree { append_only: true, rc_roots: false, direct: false },
		1 => ColKind::Tree { append_only: false, rc_roots: false, direct: false },
		2 => ColKind::Tree { append_only: false, rc_roots: true, direct: r.chance(1, 2) },
		_ => ColKind::Tree { append_only: false, rc_roots: false, direct: true },
	};
	let any_kv = [ColKind::Hash, ColKind::HashUniform, ColKind::HashPreimage, ColKind::HashRc, ColKind::Btree];
	let n = match scenario {
		"reindex" => 1 + r.below(2) as usize,
		// rarely: more than a hundred columns (three-digit column numbers in file names)
		"admin" if r.chance(1, 16) => 101 + r.below(16) as usize,
		_ => 1 + r.below(4) as usize,
	};
	let mut v = Vec::new();
	for i in 0..n {
		let k = match scenario {
			"kv" => *r.pick(&[ColKind::Hash, ColKind::Hash, ColKind::HashUniform, ColKind::HashPreimage]),
			"btree" => if i == 0 { ColKind::Btree } else { *r.pick(&[ColKind::Btree, ColKind::Hash]) },
			"sizes" => *r.pick(&[ColKind::Hash, ColKind::Btree, ColKind::HashRc, ColKind::Hash]),
			"rc" => if i == 0 { ColKind::HashRc } else { *r.pick(&[ColKind::HashRc, ColKind::BtreeRc, ColKind::Hash]) },
			"reindex" => if i == 0 { ColKind::HashUniform } else { *r.pick(&[ColKind::HashUniform, ColKind::Hash]) },
			"tree" | "treelock" => if i == 0 { tree_kind(r) } else { *r.pick(&[ColKind::Hash, ColKind::Btree]) },
			"admin" if n > 50 => *r.pick(&[ColKind::Hash, ColKind::Hash, ColKind::Hash, ColKind::Btree, ColKind::HashRc]),
			"admin" => if r.chance(1, 3) { tree_kind(r) } else { *r.pick(&any_kv) },
			"migrate" => *r.pick(&[ColKind::Hash, ColKind::Hash, ColKind::HashPreimage, ColKind::HashRc, ColKind::HashUniform, ColKind::Btree]),
			_ => {
				if r.chance(1, 8) {
					tree_kind(r)
				} else {
					*r.pick(&any_kv)
				}
			},
		};
		v.push(k);
	}
	v
}

pub fn gen(scenario: &str, tier: Tier, seed: u64) -> (RunCfg, Vec<Op>) {
	FEATURES.with(|f| f.borrow_mut().clear());
	let mut r = Rng::new(seed ^ 0x5151_0000);
	let quick = tier == Tier::Quick;
	let mut kinds = kinds_for(scenario, &mut r);
	// swarm: some runs of the fault scenarios carry an index-growth workload in column 0
	let growth = scenario == "reindex" ||
		(matches!(scenario, "crash" | "power" | "drop" | "struct" | "ioerr" | "logfuzz") && r.chance(1, 8));
	if growth && scenario != "reindex" {
		kinds[0] = ColKind::HashUniform;
		feature("index_growth_swarm");
	}
	let has_uniform = kinds.iter().any(|k| *k == ColKind::HashUniform);
	let salt_zero = if growth { true } else { has_uniform && r.chance(1, 3) };
	let big_max: u32 = if quick { 70_000 } else if r.chance(1, 10) { 3_000_000 } else { 140_000 };
	let faulty = matches!(scenario, "crash" | "power" | "drop" | "logfuzz" | "ioerr");
	let long_keys = r.chance(1, 40);
	set_palette(&mut r, kinds[0], big_max);
	let mut cols = Vec::new();
	for (ci, k) in kinds.iter().enumerate() {
		let nkeys = match scenario {
			"reindex" => 0, // filled below
			_ if growth && ci == 0 => 0,
			_ if kinds.len() > 50 => r.range(1, 3) as usize,
			"btree" => (if quick { *r.pick(&[6u64, 12, 24, 48, 90, 140]) } else { r.range(8, 400) }) as usize,
			_ => (if quick { r.range(3, 24) } else { r.range(4, 64) }) as usize,
		};
		let keys = gen_keys(&mut r, *k, nkeys, salt_zero, long_keys);
		let preimage_vals = if k.is_preimage() {
			keys.iter().map(|_| gen_val(&mut r, *k, 40_000)).collect()
		} else {
			Vec::new()
		};
		cols.push(ColCfg {
			kind: *k,
			compression: if k.is_tree() { 0 } else { *r.pick(&[0u8, 0, 1, 2]) },
			threshold: *r.pick(&[0u32, 16, 4096, 4096, u32::MAX]),
			keys,
			preimage_vals,
			bulk: None,
		});
	}
	if scenario == "reindex" {
		crate::gen2::reindex_keys(&mut r, &mut cols, tier);
	} else if growth {
		crate::gen2::reindex_keys(&mut r, &mut cols[..1], tier);
	}
	// rarely: so many entries that one index growth takes several batches
	if matches!(scenario, "reindex" | "struct") && growth && !cols[0].kind.is_preimage() && r.chance(1, if quick { 40 } else { 15 }) {
		let n = r.range(8300, 13000) as u32;
		let mask = *r.pick(&[0xffffu16, 0xfff0, 0xff80]);
		let seed = r.next();
		let extra = bulk_keys(seed, n, mask);
		// bulk keys go last; drop explicit keys that happen to collide with them
		let set: std::collections::HashSet<&Vec<u8>> = extra.iter().collect();
		cols[0].keys.retain(|k| !set.contains(k));
		cols[0].keys.extend(extra);
		cols[0].bulk = Some((seed, n, mask));
		feature("big_growth");
	}
	let power = scenario == "power";
	let buggify = faulty || r.chance(1, 2);
	let cfg = RunCfg {
		scenario: scenario.to_string(),
		cols,
		salt_zero,
		salt_seed: r.next(),
		sync_wal: power || scenario == "drop" || r.chance(3, 4),
		sync_data: power || r.chance(3, 4),
		stats: r.chance(1, 2),
		max_read: if buggify && r.chance(2, 3) { *r.pick(&[1usize, 3, 8, 17, 64, 300]) } else { 0 },
		max_write: if buggify && r.chance(1, 3) { *r.pick(&[1usize, 5, 64, 1000]) } else { 0 },
		eintr_one_in: if buggify && r.chance(1, 4) { 20 } else { 0 },
		disk_seed: r.next(),
	};
	let mut cfg = cfg;
	if !matches!(scenario, "admin" | "migrate") && r.chance(1, 5) {
		crate::gen2::edge_keys(&mut Rng::new(seed ^ 0xed9e_0000), &mut cfg);
		feature("edge_keys");
	}
	let ops = gen_ops(&mut r, &cfg, tier, big_max);
	(cfg, ops)
}

/// Column 0 carries an index-growth key set (identity hash, more than 60 keys of one page).
pub fn growth_workload(cfg: &RunCfg) -> bool {
	cfg.salt_zero && cfg.cols.first().map_or(false, |c| c.kind == ColKind::HashUniform && c.keys.len() >= 60)
}

fn gen_tx(r: &mut Rng, cfg: &RunCfg, big_max: u32, tree_state: &mut crate::gen2::TreeGen) -> Vec<(u8, TxOp)> {
	let ncols = cfg.cols.len();
	if cfg.scenario == "btree" && r.chance(1, 4) {
		// bulk insert / removal of a run of neighbouring keys: splits, merges, rebalancing of
		// inner nodes and root changes need many keys moving at once
		let bcols: Vec<u8> = (0..ncols).filter(|c| cfg.cols[*c].kind.is_btree()).map(|c| c as u8).collect();
		if !bcols.is_empty() {
			let c = *r.pick(&bcols);
			let mut order: Vec<usize> = (0..cfg.cols[c as usize].keys.len()).collect();
			order.sort_by(|a, b| cfg.cols[c as usize].keys[*a].cmp(&cfg.cols[c as usize].keys[*b]));
			let n = order.len();
			if n > 0 {
				let start = r.below(n as u64) as usize;
				let count = std::cmp::min(n - start, r.range(1, 100) as usize);
				let remove = r.chance(2, 5);
				let mut tx = Vec::new();
				for i in start..start + count {
					let k = order[i];
					if remove {
						tx.push((c, TxOp::Del(k)));
					} else {
						tx.push((c, TxOp::Set(k, ValSpec { len: r.range(0, 40) as u32, seed: r.next(), compressible: false })));
					}
				}
				return tx
			}
		}
	}
	if growth_workload(cfg) && r.chance(2, 5) {
		// bulk insert into the collision group so that one index page overflows
		let ucols: Vec<u8> =
			(0..ncols).filter(|c| cfg.cols[*c].kind == ColKind::HashUniform).map(|c| c as u8).collect();
		if !ucols.is_empty() {
			let c = *r.pick(&ucols);
			let n = cfg.cols[c as usize].keys.len();
			let count = r.range(8, 90) as usize;
			let start = r.below(n as u64) as usize;
			let mut tx = Vec::new();
			for i in 0..std::cmp::min(count, n) {
				let k = (start + i) % n;
				if r.chance(1, 12) {
					tx.push((c, TxOp::Del(k)));
				} else {
					tx.push((c, TxOp::Set(k, ValSpec { len: r.range(0, 60) as u32, seed: r.next(), compressible: false })));
				}
			}
			return tx
		}
	}
	let nops = match r.below(20) {
		0 => 0,
		1..=9 => r.range(1, 3),
		10..=17 => r.range(2, 8),
		_ => r.range(8, 40),
	} as usize;
	let one_col = r.chance(1, 3);
	let col0 = r.below(ncols as u64) as u8;
	let mut tx = Vec::new();
	let mut last: Option<(u8, usize)> = None;
	for _ in 0..nops {
		let c = if one_col { col0 } else { r.below(ncols as u64) as u8 };
		let cc = &cfg.cols[c as usize];
		if cc.kind.is_tree() {
			if let Some(op) = tree_state.gen_op(r, c, cc, &tx) {
				tx.push((c, op));
			}
			continue
		}
		if cc.keys.is_empty() {
			continue
		}
		// repeated keys inside one transaction are a targeted pattern
		let k = match last {
			Some((lc, lk)) if lc == c && r.chance(1, 5) => lk,
			_ => r.below(cc.keys.len() as u64) as usize,
		};
		last = Some((c, k));
		let op = if cc.kind.is_rc() {
			match r.below(10) {
				0..=4 => TxOp::Set(k, cc.preimage_vals[k]),
				5..=6 => TxOp::Ref(k),
				_ => TxOp::Del(k),
			}
		} else if cc.kind.is_preimage() {
			if r.chance(7, 10) {
				TxOp::Set(k, cc.preimage_vals[k])
			} else {
				TxOp::Del(k)
			}
		} else if r.chance(7, 10) {
			TxOp::Set(k, gen_val(r, cc.kind, big_max))
		} else {
			TxOp::Del(k)
		};
		tx.push((c, op));
	}
	tx
}

fn gen_ops(r: &mut Rng, cfg: &RunCfg, tier: Tier, big_max: u32) -> Vec<Op> {
	let quick = tier == Tier::Quick;
	let scenario = cfg.scenario.as_str();
	let n = (if quick { r.range(5, 60) } else { r.range(20, 400) }) as usize;
	let mut w = Weights {
		commit: 38,
		step: 50,
		restart: 3,
		drain: 2,
		crash: 0,
		iter: 0,
		ioerr: 0,
		logfuzz: 0,
		locktree: 0,
		admin: 0,
		reject: 0,
	};
	match scenario {
		"btree" => {
			w.iter = 40;
			w.crash = 3;
		},
		"crash" | "power" => w.crash = 10,
		"drop" => {
			w.restart = 8;
			w.crash = 4;
		},
		"struct" => {
			w.drain = 6;
			w.crash = 3;
		},
		"rc" => w.crash = 2,
		"reindex" => w.crash = 5,
		"logfuzz" => w.logfuzz = 6,
		"ioerr" => w.ioerr = 8,
		"reject" => w.reject = 10,
		"tree" => w.reject = 2,
		"treelock" => w.locktree = 5,
		"admin" => w.admin = 6,
		_ => {},
	}
	if cfg.cols.iter().any(|c| c.kind == ColKind::BtreeRc) {
		// Counts of a ref-counted btree column cannot be observed (no value iteration), so the
		// prefix a crash recovered to would be ambiguous: such runs have no crash faults.
		w.crash = 0;
		w.ioerr = 0;
		w.logfuzz = 0;
	}
	let mut pipe = Pipe { reindex_bias: growth_workload(cfg), ..Pipe::default() };
	let mut ops = Vec::new();
	if scenario == "treelock" && r.chance(1, 3) {
		ops = treelock_pattern(r, cfg);
		if !ops.is_empty() {
			feature("treelock_prefix");
		}
	}
	let mut tree_state = crate::gen2::TreeGen::new(cfg);
	let mut crashes = 0;
	if matches!(scenario, "kv" | "sizes" | "btree" | "struct" | "rc") && r.chance(1, 8) {
		ops = slot_reuse_pattern(r, cfg, big_max);
		if !ops.is_empty() {
			feature("slot_reuse_prefix");
		}
		for op in &ops {
			pipe.apply(op);
		}
	}
	if cfg.cols.len() > 50 {
		// every column gets something to lose, all of it applied to the tables
		feature("many_columns");
		let mut tx = Vec::new();
		for (c, cc) in cfg.cols.iter().enumerate() {
			let v = if cc.kind.is_preimage() { cc.preimage_vals[0] } else { ValSpec { len: r.range(1, 40) as u32, seed: r.next(), compressible: false } };
			tx.push((c as u8, TxOp::Set(0, v)));
		}
		ops.push(Op::Commit(tx));
		ops.push(Op::Drain);
		for op in &ops {
			pipe.apply(op);
		}
	}
	if let Some((_, nb, _)) = cfg.cols[0].bulk {
		ops = big_growth_pattern(r, cfg, nb as usize);
		for op in &ops {
			pipe.apply(op);
		}
	} else if matches!(scenario, "crash" | "power" | "drop" | "ioerr" | "struct") && w.crash + w.ioerr > 0 && cfg.sync_data && r.chance(1, 6) {
		ops = rotation_pattern(r, cfg, big_max, &mut tree_state, quick);
		feature("log_rotation_prefix");
		for op in &ops {
			pipe.apply(op);
		}
		crashes += 1;
	} else if matches!(scenario, "crash" | "drop" | "ioerr" | "struct") && w.crash + w.ioerr > 0 && !cfg.sync_data && r.chance(1, 3) {
		ops = many_logs_pattern(r, cfg, big_max, &mut tree_state, quick);
		feature("many_kept_logs_prefix");
		for op in &ops {
			pipe.apply(op);
		}
		crashes += 1;
	}
	let n = if cfg.cols[0].bulk.is_some() { ops.len() + std::cmp::min(n, 12) } else { n };
	while ops.len() < n {
		let choice = r.weighted(&[
			w.commit, w.step, w.restart, w.drain, w.crash, w.iter, w.ioerr, w.logfuzz, w.locktree, w.admin, w.reject,
		]);
		let op = match choice {
			0 => Op::Commit(gen_tx(r, cfg, big_max, &mut tree_state)),
			1 => Op::Step(pipe.pick_stage(r)),
			2 => Op::Restart,
			3 => Op::Drain,
			4 => {
				if crashes >= 4 || tree_state.any_locked() {
					continue
				}
				crashes += 1;
				let inner = match r.below(20) {
					0..=4 if growth_workload(cfg) => Op::Step(*r.pick(&[Stage::ProcessReindex, Stage::EnactAll, Stage::EnactOne, Stage::Clean])),
					0..=13 => Op::Step(pipe.pick_stage(r)),
					14..=15 => Op::Restart,
					16..=17 => Op::Drain,
					_ => Op::Commit(gen_tx(r, cfg, big_max, &mut tree_state)),
				};
				let power = scenario == "power" || (scenario != "crash" && scenario != "drop" && r.chance(1, 3));
				let kind = if power && cfg.sync_wal && cfg.sync_data {
					let (p_num, p_den) = *r.pick(&[(0u32, 10u32), (1, 10), (5, 10), (9, 10), (10, 10)]);
					CrashKind::Power { p_num, p_den }
				} else {
					CrashKind::Proc
				};
				tree_state.on_crash();
				Op::Crash {
					inner: Box::new(inner),
					plan: CrashPlan {
						kind,
						stride: if quick { *r.pick(&[1u32, 2, 3, 5, 8]) } else { *r.pick(&[1u32, 1, 2, 3]) },
						phase: r.below(8) as u32,
						max: if quick { 10 } else { 40 },
						adopt: r.below(64) as u32,
						boundary: r.chance(1, 3),
						recrash: if r.chance(1, 6) { 1 } else { 0 },
					},
				}
			},
			5 => {
				let bcols: Vec<u8> =
					(0..cfg.cols.len()).filter(|c| cfg.cols[*c].kind.is_btree()).map(|c| c as u8).collect();
				if bcols.is_empty() {
					continue
				}
				let c = *r.pick(&bcols);
				let nk = cfg.cols[c as usize].keys.len().max(1);
				let call = match r.below(12) {
					0 => IterCall::SeekFirst,
					1 => IterCall::SeekLast,
					2..=4 => IterCall::Seek(r.below(nk as u64) as usize),
					5..=8 => IterCall::Next,
					_ => IterCall::Prev,
				};
				Op::Iter(c, call)
			},
			6 => match crate::gen2::gen_ioerr(r, cfg, &pipe, big_max, &mut tree_state) {
				Some(op) => op,
				None => continue,
			},
			7 => crate::gen2::gen_logfuzz(r, cfg),
			8 => match tree_state.gen_lock_op(r, cfg) {
				Some(op) => op,
				None => continue,
			},
			9 => match crate::gen2::gen_admin(r, cfg) {
				Some(op) => op,
				None => continue,
			},
			_ if scenario == "tree" => match crate::gen2::gen_unrepresentable(r, cfg, &tree_state) {
				Some(op) => op,
				None => continue,
			},
			_ => match crate::gen2::gen_reject(r, cfg, big_max, &mut tree_state) {
				Some(op) => op,
				None => continue,
			},
		};
		pipe.apply(&op);
		ops.push(op);
	}
	if scenario == "migrate" {
		let mut dest = Vec::new();
		for c in &cfg.cols {
			let (k, comp) = match c.kind {
				ColKind::Btree | ColKind::BtreeRc => (c.kind, c.compression),
				ColKind::HashUniform => (ColKind::HashUniform, *r.pick(&[0u8, 1, 2])),
				_ =>
					if r.chance(2, 3) {
						(*r.pick(&[ColKind::Hash, ColKind::HashPreimage, ColKind::HashRc]), *r.pick(&[0u8, 1, 2]))
					} else {
						(c.kind, c.compression)
					},
			};
			dest.push((k.name(), comp));
		}
		let force: Vec<u8> = (0..cfg.cols.len() as u8).filter(|c| !cfg.cols[*c as usize].kind.is_btree() && r.chance(1, 4)).collect();
		ops.push(Op::Migrate { dest, overwrite: r.chance(1, 4), force, pending: r.chance(1, 3) });
		// a little more history on the migrated database
		for _ in 0..r.below(6) {
			if r.chance(1, 2) {
				ops.push(Op::Commit(gen_tx(r, cfg, big_max, &mut tree_state)));
			} else {
				ops.push(Op::Step(pipe.pick_stage(r)));
			}
		}
	}
	ops
}

pub fn gen_valid_tx(r: &mut Rng, cfg: &RunCfg, big_max: u32, ts: &mut crate::gen2::TreeGen) -> Vec<(u8, TxOp)> {
	gen_tx(r, cfg, big_max, ts)
}

pub fn pick_stage_for(r: &mut Rng, queued: u32, appending: u32, unread: u32, dirty: u32) -> Stage {
	Pipe { queued, appending, unread, dirty, reindex_bias: false }.pick_stage(r)
}

pub struct PipeView {
	pub queued: u32,
	pub appending: u32,
	pub unread: u32,
	pub dirty: u32,
}

impl PipeView {
	pub fn of(p: &PipeViewSrc) -> PipeView {
		PipeView { queued: p.0, appending: p.1, unread: p.2, dirty: p.3 }
	}
}
pub type PipeViewSrc = (u32, u32, u32, u32);

pub(crate) fn pipe_tuple(p: &impl PipeLike) -> PipeViewSrc {
	p.tuple()
}
pub trait PipeLike {
	fn tuple(&self) -> PipeViewSrc;
}
impl PipeLike for Pipe {
	fn tuple(&self) -> PipeViewSrc {
		(self.queued, self.appending, self.unread, self.dirty)
	}
}

/// Scripted prefix (the rest of the run is random as usual): a freed slot of a size tier is
/// reused by a transaction that does nothing else in that tier, the database is restarted, and
/// the tier is written again (free-list head persisted?).
fn slot_reuse_pattern(r: &mut Rng, cfg: &RunCfg, big_max: u32) -> Vec<Op> {
	let cols: Vec<u8> = (0..cfg.cols.len())
		.filter(|c| {
			let k = cfg.cols[*c].kind;
			!k.is_tree() && !k.is_preimage() && cfg.cols[*c].keys.len() >= 4
		})
		.map(|c| c as u8)
		.collect();
	if cols.is_empty() {
		return Vec::new()
	}
	let c = *r.pick(&cols);
	let kind = cfg.cols[c as usize].kind;
	let nk = cfg.cols[c as usize].keys.len();
	let mut ks: Vec<usize> = (0..nk).collect();
	let mut pick = |r: &mut Rng| {
		let i = r.below(ks.len() as u64) as usize;
		ks.remove(i)
	};
	let (k1, k2, k3, k4) = (pick(r), pick(r), pick(r), pick(r));
	let len = gen_val(r, kind, std::cmp::min(big_max, 40_000)).len;
	let val = |r: &mut Rng| ValSpec { len, seed: r.next(), compressible: false };
	let mut ops = Vec::new();
	let pipeline = |ops: &mut Vec<Op>, r: &mut Rng| {
		ops.push(Op::Step(Stage::ProcessCommits));
		if r.chance(3, 4) {
			ops.push(Op::Step(Stage::Flush));
			ops.push(Op::Step(Stage::EnactAll));
			if r.chance(1, 2) {
				ops.push(Op::Step(Stage::Clean));
			}
		}
	};
	ops.push(Op::Commit(vec![(c, TxOp::Set(k1, val(r))), (c, TxOp::Set(k2, val(r)))]));
	pipeline(&mut ops, r);
	ops.push(Op::Commit(vec![(c, TxOp::Del(k1))]));
	pipeline(&mut ops, r);
	ops.push(Op::Commit(vec![(c, TxOp::Set(k3, val(r)))]));
	pipeline(&mut ops, r);
	ops.push(Op::Restart);
	ops.push(Op::Commit(vec![(c, TxOp::Set(k4, val(r)))]));
	pipeline(&mut ops, r);
	if r.chance(1, 2) {
		ops.push(Op::Restart);
	}
	ops
}

/// Scripted prefix of a run whose column 0 holds thousands of bulk keys: they are all inserted,
/// then the collision group makes the index grow, and the growth is carried through its batches
/// with other stages in between.
fn big_growth_pattern(r: &mut Rng, cfg: &RunCfg, nb: usize) -> Vec<Op> {
	let nk = cfg.cols[0].keys.len();
	let first_bulk = nk - nb;
	let mut ops = Vec::new();
	let parts = r.range(1, 3) as usize;
	let mut at = first_bulk;
	for p in 0..parts {
		let end = if p + 1 == parts { nk } else { at + (nk - at) / (parts - p) };
		let tx: Vec<(u8, TxOp)> = (at..end)
			.map(|k| (0u8, TxOp::Set(k, ValSpec { len: (k % 7) as u32, seed: k as u64, compressible: false })))
			.collect();
		ops.push(Op::Commit(tx));
		ops.push(Op::Step(Stage::ProcessCommits));
		at = end;
	}
	if r.chance(1, 2) {
		ops.push(Op::Step(Stage::Flush));
		ops.push(Op::Step(Stage::EnactAll));
	}
	// the collision group: one page overflows
	let tx: Vec<(u8, TxOp)> = (0..first_bulk)
		.map(|k| (0u8, TxOp::Set(k, ValSpec { len: r.range(0, 30) as u32, seed: r.next(), compressible: false })))
		.collect();
	ops.push(Op::Commit(tx));
	ops.push(Op::Step(Stage::ProcessCommits));
	for _ in 0..r.range(2, 5) {
		ops.push(Op::Step(Stage::ProcessReindex));
		if r.chance(1, 3) {
			ops.push(Op::Step(*r.pick(&[Stage::Flush, Stage::EnactAll, Stage::EnactOne, Stage::Clean])));
		}
	}
	ops.push(Op::Drain);
	ops
}

/// Scripted prefix for the fault scenarios (the rest of the run is random as usual): log files
/// are recycled so that the older of two consumed logs carries the higher file number, both touch
/// common keys, and the reclaiming step is the one that is crashed / failed.
fn rotation_pattern(r: &mut Rng, cfg: &RunCfg, big_max: u32, ts: &mut crate::gen2::TreeGen, quick: bool) -> Vec<Op> {
	let scenario = cfg.scenario.as_str();
	let mut ops = Vec::new();
	let filler = |ops: &mut Vec<Op>, r: &mut Rng| {
		if r.chance(1, 4) {
			ops.push(Op::Step(*r.pick(&[Stage::ProcessReindex, Stage::ProcessCommits])));
		}
	};
	// writer files are taken lazily by the first record written after a rotation: record 1 goes
	// to log0, record 2 to log1; log0 alone is consumed and reclaimed, so that record 3 reuses
	// log0 while log1 (older) is still waiting
	let tx1 = gen_tx(r, cfg, big_max, ts);
	ops.push(Op::Commit(tx1));
	ops.push(Op::Step(Stage::ProcessCommits));
	ops.push(Op::Step(Stage::Flush));
	let tx2 = gen_tx(r, cfg, big_max, ts);
	let has_tree = tx2.iter().any(|(c, _)| cfg.cols[*c as usize].kind.is_tree());
	let tx3: Vec<(u8, TxOp)> = if has_tree || tx2.is_empty() || r.chance(1, 3) {
		gen_tx(r, cfg, big_max, ts)
	} else {
		// the same keys again with other values
		tx2.iter()
			.map(|(c, op)| {
				let kind = cfg.cols[*c as usize].kind;
				match op {
					TxOp::Set(k, v) if !kind.is_preimage() && !kind.is_rc() => (*c, TxOp::Set(*k, ValSpec { seed: r.next(), ..*v })),
					TxOp::Del(k) if !kind.is_preimage() && !kind.is_rc() => (*c, TxOp::Set(*k, gen_val(r, kind, big_max))),
					o => (*c, o.clone()),
				}
			})
			.collect()
	};
	ops.push(Op::Commit(tx2));
	ops.push(Op::Step(Stage::ProcessCommits));
	ops.push(Op::Step(Stage::Flush));
	ops.push(Op::Step(Stage::EnactAll));
	filler(&mut ops, r);
	ops.push(Op::Step(Stage::Clean));
	ops.push(Op::Commit(tx3));
	ops.push(Op::Step(Stage::ProcessCommits));
	ops.push(Op::Step(Stage::Flush));
	ops.push(Op::Step(Stage::EnactAll));
	ops.push(Op::Step(Stage::EnactAll));
	let inner = Box::new(Op::Step(Stage::Clean));
	if scenario == "ioerr" {
		let tryio = r.chance(1, 2);
		ops.push(Op::IoErr { inner, after: r.below(14) as u32, errno: libc::EIO, tryio, space_only: false });
	} else {
		let kind = if scenario == "power" || (scenario == "struct" && cfg.sync_wal && r.chance(1, 2)) {
			let (p_num, p_den) = *r.pick(&[(0u32, 10u32), (1, 10), (5, 10), (9, 10), (10, 10)]);
			CrashKind::Power { p_num, p_den }
		} else {
			CrashKind::Proc
		};
		ts.on_crash();
		ops.push(Op::Crash {
			inner,
			plan: CrashPlan {
				kind,
				stride: 1,
				phase: 0,
				max: if quick { 16 } else { 40 },
				adopt: r.below(64) as u32,
				boundary: false,
				recrash: 0,
			},
		});
	}
	ops
}

/// Without `sync_data` the database keeps the 16 most recent consumed log files and reclaims only
/// older ones: one log file per record for 17-22 records, reclamation after each of the later ones,
/// one more record synced and not applied, and a crash (or failure) in the next step. Recovery then
/// meets kept logs whose records are already in the tables, followed by the pending one.
fn many_logs_pattern(r: &mut Rng, cfg: &RunCfg, big_max: u32, ts: &mut crate::gen2::TreeGen, quick: bool) -> Vec<Op> {
	let scenario = cfg.scenario.as_str();
	let mut ops = Vec::new();
	let rounds = r.range(17, 23);
	for i in 0..rounds {
		ops.push(Op::Commit(gen_tx(r, cfg, big_max, ts)));
		ops.push(Op::Step(Stage::ProcessCommits));
		ops.push(Op::Step(Stage::Flush));
		if i >= 14 {
			ops.push(Op::Step(Stage::Clean));
		}
		ops.push(Op::Step(Stage::EnactAll));
	}
	ops.push(Op::Step(Stage::Clean));
	ops.push(Op::Commit(gen_tx(r, cfg, big_max, ts)));
	ops.push(Op::Step(Stage::ProcessCommits));
	ops.push(Op::Step(Stage::Flush));
	let inner = Box::new(Op::Step(*r.pick(&[Stage::Clean, Stage::EnactAll, Stage::EnactOne])));
	if scenario == "ioerr" {
		let tryio = r.chance(1, 2);
		ops.push(Op::IoErr { inner, after: r.below(14) as u32, errno: libc::EIO, tryio, space_only: false });
	} else {
		ts.on_crash();
		ops.push(Op::Crash {
			inner,
			plan: CrashPlan {
				kind: CrashKind::Proc,
				stride: 1,
				phase: 0,
				max: if quick { 16 } else { 40 },
				adopt: r.below(64) as u32,
				boundary: false,
				recrash: 0,
			},
		});
	}
	ops
}

/// Scripted prefix for the tree-lock scenario (the rest of the run is random as usual): a tree
/// with two references whose reader handle is fetched early, locked only after the first
/// dereference has been processed, and held while the second one is committed and processed.
fn treelock_pattern(r: &mut Rng, cfg: &RunCfg) -> Vec<Op> {
	let cols: Vec<u8> = (0..cfg.cols.len())
		.filter(|c| matches!(cfg.cols[*c].kind, ColKind::Tree { append_only: false, rc_roots: true, .. }))
		.map(|c| c as u8)
		.collect();
	if cols.is_empty() {
		return Vec::new()
	}
	let c = *r.pick(&cols);
	let nk = cfg.cols[c as usize].keys.len();
	if nk == 0 {
		return Vec::new()
	}
	let k = r.below(nk as u64) as usize;
	let leaf = |r: &mut Rng| TreeSpec { data: ValSpec { len: r.range(0, 60) as u32, seed: r.next(), compressible: false }, children: Vec::new() };
	let spec = TreeSpec {
		data: ValSpec { len: r.range(0, 40) as u32, seed: r.next(), compressible: false },
		children: (0..r.range(1, 4)).map(|_| ChildSpec::New(leaf(r))).collect(),
	};
	let mut ops = Vec::new();
	let mut filler = |ops: &mut Vec<Op>, r: &mut Rng| {
		for _ in 0..r.below(3) {
			ops.push(Op::Step(*r.pick(&[Stage::Flush, Stage::EnactAll, Stage::EnactOne, Stage::Clean, Stage::ProcessReindex])));
		}
	};
	ops.push(Op::Commit(vec![(c, TxOp::InsertTree(k, spec))]));
	if r.chance(1, 2) {
		ops.push(Op::Step(Stage::ProcessCommits));
	}
	ops.push(Op::Commit(vec![(c, TxOp::RefTree(k))]));
	let early = r.chance(2, 3);
	if early {
		ops.push(Op::TreeHandle(c, k));
	}
	ops.push(Op::Step(Stage::ProcessCommits));
	ops.push(Op::Step(Stage::ProcessCommits));
	filler(&mut ops, r);
	if !early {
		ops.push(Op::TreeHandle(c, k));
	}
	ops.push(Op::Commit(vec![(c, TxOp::DerefTree(k))]));
	ops.push(Op::Step(Stage::ProcessCommits));
	filler(&mut ops, r);
	ops.push(Op::LockTree(c, k));
	ops.push(Op::Commit(vec![(c, TxOp::DerefTree(k))]));
	ops.push(Op::Step(Stage::ProcessCommits));
	filler(&mut ops, r);
	ops.push(Op::Step(Stage::ProcessCommits));
	ops.push(Op::UnlockTree(c, k));
	ops.push(Op::Step(Stage::ProcessCommits));
	ops
}
