//! simdisk — the interposed disk.
//!
//! This binary defines the libc entry points used by std / memmap2 / fs2, so every file
//! operation parity-db issues on the run directory is observed, counted, can be failed or
//! shortened, and is a candidate crash point. The layer also maintains the *durable* image of
//! every file (content as of its last sync) so that power-loss images can be produced.
//!
//! Only calls made by the *owner thread* (the thread executing a simulated run) on paths below
//! the tracked root are treated; everything else passes straight through to the kernel.

#![allow(clippy::missing_safety_doc)]

use crate::prng::{fnv64, Rng};
use libc::{c_char, c_int, c_long, c_uint, c_void, mode_t, off_t, size_t, ssize_t};
use std::collections::{BTreeMap, HashMap};
use std::ffi::CStr;
use std::sync::atomic::{AtomicBool, AtomicI64, Ordering};

pub const PAGE: usize = 4096;

// ---------------------------------------------------------------------------------------------
// Event kinds

#[derive(Clone, Copy, Debug, PartialEq, Eq, Hash, PartialOrd, Ord)]
#[repr(u8)]
pub enum Ev {
	Open = 0,
	Create,
	Read,
	Write,
	Trunc,
	Fsync,
	Fdatasync,
	Msync,
	Mmap,
	Munmap,
	Unlink,
	Rename,
	Mkdir,
	Close,
	Lseek,
	Flock,
}

pub const EV_NAMES: [&str; 16] = [
	"open", "create", "read", "write", "ftruncate", "fsync", "fdatasync", "msync", "mmap", "munmap",
	"unlink", "rename", "mkdir", "close", "lseek", "flock",
];

impl Ev {
	pub fn name(self) -> &'static str {
		EV_NAMES[self as usize]
	}
	/// Events at which a crash image is worth taking (state may differ from the neighbours).
	fn is_crash_point(self) -> bool {
		matches!(
			self,
			Ev::Create |
				Ev::Read | Ev::Write |
				Ev::Trunc | Ev::Fsync |
				Ev::Fdatasync |
				Ev::Msync | Ev::Mmap |
				Ev::Unlink | Ev::Rename
		)
	}
	/// Events that can be failed by errno injection.
	fn is_failable(self) -> bool {
		matches!(
			self,
			Ev::Open |
				Ev::Create | Ev::Read |
				Ev::Write | Ev::Trunc |
				Ev::Fsync | Ev::Fdatasync |
				Ev::Msync | Ev::Mmap |
				Ev::Unlink | Ev::Lseek
		)
	}
}

#[derive(Clone, Debug)]
pub struct Event {
	pub seq: u64,
	pub kind: Ev,
	pub file: String,
	pub a: u64,
	pub b: u64,
	pub res: i64,
}

// ---------------------------------------------------------------------------------------------
// File classification

#[derive(Clone, Copy, Debug, PartialEq, Eq)]
pub enum FileClass {
	Log,
	Table, // value table, index or ref-count file: memory mapped
	Other, // metadata, lock, stats.txt
}

pub fn classify(name: &str) -> FileClass {
	if name.starts_with("log") && name[3..].chars().all(|c| c.is_ascii_digit()) && name.len() > 3 {
		FileClass::Log
	} else if name.starts_with("table_") || name.starts_with("index_") || name.starts_with("refcount_")
	{
		FileClass::Table
	} else {
		FileClass::Other
	}
}

// ---------------------------------------------------------------------------------------------
// Durable shadow

#[derive(Clone, Debug, Default)]
pub struct Shadow {
	pub size: u64,
	/// Non-zero durable pages.
	pub pages: HashMap<u64, Box<[u8]>>,
}

#[derive(Clone, Debug)]
pub enum SnapKind {
	/// Exact live content (process killed).
	Proc,
	/// Durable content + each dirty page with probability num/den; log tail policy.
	Power { p_num: u32, p_den: u32 },
}

#[derive(Clone, Debug)]
pub struct SnapPlan {
	pub kind: SnapKind,
	/// Take a snapshot at every `stride`-th crash-point event, starting with `phase`.
	pub stride: u32,
	pub phase: u32,
	pub max: u32,
	/// Snapshot before the syscall executes (true) or after (false) — alternates when None.
	pub before: Option<bool>,
}

#[derive(Clone, Debug)]
pub struct Snapshot {
	pub dir: String,
	pub seq: u64,
	pub ev: Ev,
	pub file: String,
	pub before: bool,
	pub step_event_index: u32,
	pub dirty_pages_total: u32,
	pub dirty_pages_kept: u32,
	pub log_tail_cut: bool,
}

#[derive(Clone, Debug)]
pub struct FailPlan {
	/// Number of failable events let through inside the armed window before failing.
	pub after: u32,
	pub errno: i32,
	pub sticky: bool,
	/// Restrict to a set of event kinds (bit = 1 << kind; 0 = any failable kind).
	pub only_mask: u32,
}

#[derive(Clone, Debug, Default)]
pub struct Buggify {
	/// read() returns at most this many bytes (0 = unlimited).
	pub max_read: usize,
	/// write() writes at most this many bytes (0 = unlimited).
	pub max_write: usize,
	/// 1-in-n chance of an EINTR on read/write (0 = never).
	pub eintr_one_in: u32,
}

#[derive(Default, Clone, Debug)]
pub struct Counters {
	pub events: u64,
	pub by_kind: [u64; 16],
	pub short_reads: u64,
	pub short_writes: u64,
	pub eintr: u64,
	pub errno_injected: u64,
	pub snapshots_proc: u64,
	pub snapshots_power: u64,
	pub trunc_reverted: u64,
	pub getrandom_calls: u64,
	pub monitor_checks: u64,
}

#[derive(Clone, Debug)]
pub struct MonitorViolation {
	pub clause: &'static str,
	pub detail: String,
	pub seq: u64,
}

struct MapInfo {
	addr: usize,
	len: usize,
	file: String,
	off: u64,
}

pub struct Disk {
	pub root: String, // always ends with '/'
	fds: HashMap<i32, String>,
	maps: Vec<MapInfo>,
	pub shadow: BTreeMap<String, Shadow>,
	/// Log files truncated to zero and not synced since: durable content before the truncation. A
	/// power-loss image may still hold that content (the truncation itself is not durable before
	/// the file is synced).
	pub pending_trunc: BTreeMap<String, Shadow>,
	pub seq: u64,
	pub fingerprint: u64,
	pub events: Vec<Event>,
	pub keep_events: bool,
	pub counters: Counters,
	pub buggify: Buggify,
	rng: Rng,
	rand_stream: Rng,
	// arming
	pub armed: bool,
	pub step_events: u32,
	pub step_crash_points: u32,
	pub snap_plan: Option<SnapPlan>,
	pub snapshots: Vec<Snapshot>,
	pub snap_base: String,
	snap_counter: u32,
	pub fail_plan: Option<FailPlan>,
	fail_seen: u32,
	pub fail_tripped: bool,
	pub fail_count: u32,
	// monitor (C12 ordering clauses)
	pub monitor: bool,
	pub monitor_violations: Vec<MonitorViolation>,
	/// Log files from which bytes were read during the current step.
	pub step_logs_read: Vec<String>,
}

static ACTIVE: AtomicBool = AtomicBool::new(false);
static RAND_ACTIVE: AtomicBool = AtomicBool::new(false);
static mut RAND_STATE: u64 = 0;
static mut RAND_CALLS: u64 = 0;
static OWNER: AtomicI64 = AtomicI64::new(0);
static mut DISK: Option<Box<Disk>> = None;
static mut IN_HOOK: bool = false;

fn gettid() -> i64 {
	unsafe { libc::syscall(libc::SYS_gettid) as i64 }
}

#[inline]
fn hooked() -> bool {
	ACTIVE.load(Ordering::Relaxed) && OWNER.load(Ordering::Relaxed) == gettid() && unsafe { !IN_HOOK }
}

#[allow(static_mut_refs)]
fn disk() -> &'static mut Disk {
	unsafe { DISK.as_mut().expect("simdisk not installed") }
}

/// Run `f` with interposition disabled (nested file I/O of the harness itself).
pub fn muted<R>(f: impl FnOnce() -> R) -> R {
	unsafe {
		let old = IN_HOOK;
		IN_HOOK = true;
		let r = f();
		IN_HOOK = old;
		r
	}
}

/// Install a fresh disk for the calling thread. `root` is the database directory.
pub fn install(root: &str, seed: u64, snap_base: &str) {
	let mut rng = Rng::new(seed);
	let rand_stream = rng.fork(0x6765_7472);
	// The seeded getrandom stream must be live before the first HashMap of this thread is
	// created (std draws the thread's RandomState keys on first use) — including our own.
	unsafe {
		RAND_STATE = rand_stream.0;
		RAND_CALLS = 0;
	}
	OWNER.store(gettid(), Ordering::SeqCst);
	RAND_ACTIVE.store(true, Ordering::SeqCst);
	let mut root = root.to_string();
	if !root.ends_with('/') {
		root.push('/');
	}
	let d = Disk {
		root,
		fds: HashMap::new(),
		maps: Vec::new(),
		shadow: BTreeMap::new(),
		pending_trunc: BTreeMap::new(),
		seq: 0,
		fingerprint: 0,
		events: Vec::new(),
		keep_events: false,
		counters: Counters::default(),
		buggify: Buggify::default(),
		rng,
		rand_stream,
		armed: false,
		step_events: 0,
		step_crash_points: 0,
		snap_plan: None,
		snapshots: Vec::new(),
		snap_base: snap_base.to_string(),
		snap_counter: 0,
		fail_plan: None,
		fail_seen: 0,
		fail_tripped: false,
		fail_count: 0,
		monitor: false,
		monitor_violations: Vec::new(),
		step_logs_read: Vec::new(),
	};
	#[allow(static_mut_refs)]
	unsafe {
		DISK = Some(Box::new(d));
		IN_HOOK = false;
	}
	OWNER.store(gettid(), Ordering::SeqCst);
	ACTIVE.store(true, Ordering::SeqCst);
}

pub fn uninstall() -> Option<Box<Disk>> {
	ACTIVE.store(false, Ordering::SeqCst);
	RAND_ACTIVE.store(false, Ordering::SeqCst);
	#[allow(static_mut_refs)]
	unsafe {
		if let Some(d) = DISK.as_mut() {
			d.counters.getrandom_calls = RAND_CALLS;
		}
	}
	OWNER.store(0, Ordering::SeqCst);
	#[allow(static_mut_refs)]
	unsafe {
		DISK.take()
	}
}

pub fn with<R>(f: impl FnOnce(&mut Disk) -> R) -> R {
	muted(|| f(disk()))
}

impl Disk {
	/// Point the disk at a (new) database directory whose current content is, by definition,
	/// durable. All fd / mapping knowledge about the old root is dropped.
	pub fn set_root(&mut self, root: &str) {
		let mut root = root.to_string();
		if !root.ends_with('/') {
			root.push('/');
		}
		self.root = root;
		self.fds.clear();
		self.maps.clear();
		self.shadow.clear();
		self.pending_trunc.clear();
		self.rescan_all_durable();
	}

	/// Declare everything currently in the root directory durable.
	pub fn rescan_all_durable(&mut self) {
		self.shadow.clear();
		self.pending_trunc.clear();
		if let Ok(rd) = std::fs::read_dir(&self.root) {
			let mut names: Vec<String> = rd
				.filter_map(|e| e.ok())
				.filter(|e| e.file_type().map(|t| t.is_file()).unwrap_or(false))
				.filter_map(|e| e.file_name().into_string().ok())
				.collect();
			names.sort();
			for n in names {
				let sh = read_sparse(&format!("{}{}", self.root, n));
				self.shadow.insert(n, sh);
			}
		}
	}

	fn rel(&self, path: &str) -> Option<String> {
		path.strip_prefix(self.root.as_str()).filter(|r| !r.is_empty() && !r.contains('/')).map(|s| s.to_string())
	}

	fn record(&mut self, kind: Ev, file: &str, a: u64, b: u64, res: i64) {
		self.seq += 1;
		self.counters.events += 1;
		self.counters.by_kind[kind as usize] += 1;
		let mut h = self.fingerprint;
		h = fnv64(h, &[kind as u8]);
		h = fnv64(h, file.as_bytes());
		h = fnv64(h, &a.to_le_bytes());
		h = fnv64(h, &b.to_le_bytes());
		h = fnv64(h, &res.to_le_bytes());
		self.fingerprint = h;
		if self.keep_events {
			self.events.push(Event { seq: self.seq, kind, file: file.to_string(), a, b, res });
		}
	}

	pub fn begin_step(&mut self) {
		self.armed = true;
		self.step_events = 0;
		self.step_crash_points = 0;
		self.fail_seen = 0;
		self.step_logs_read.clear();
	}

	pub fn end_step(&mut self) {
		self.armed = false;
		self.snap_plan = None;
		if let Some(f) = &self.fail_plan {
			if !f.sticky {
				self.fail_plan = None;
			}
		}
	}

	pub fn clear_faults(&mut self) {
		self.fail_plan = None;
		self.fail_tripped = false;
		self.snap_plan = None;
	}

	/// Decide whether to fail this event. Returns errno.
	fn inject(&mut self, kind: Ev) -> Option<i32> {
		if !kind.is_failable() {
			return None
		}
		let plan = self.fail_plan.as_ref()?;
		if plan.only_mask != 0 && plan.only_mask & (1 << kind as u32) == 0 {
			return None
		}
		if plan.sticky && self.fail_tripped {
			self.counters.errno_injected += 1;
			self.fail_count += 1;
			return Some(plan.errno)
		}
		if !self.armed {
			return None
		}
		if self.fail_tripped {
			return None
		}
		if self.fail_seen == plan.after {
			self.fail_tripped = true;
			self.counters.errno_injected += 1;
			self.fail_count += 1;
			return Some(plan.errno)
		}
		self.fail_seen += 1;
		None
	}

	/// Called before and after a crash-point event while armed.
	fn maybe_snapshot(&mut self, kind: Ev, file: &str, before: bool) {
		if !self.armed || !kind.is_crash_point() {
			return
		}
		let Some(plan) = self.snap_plan.clone() else { return };
		let idx = self.step_crash_points;
		let want_before = plan.before.unwrap_or(idx % 2 == 0);
		if want_before != before {
			return
		}
		if (self.snapshots.len() as u32) >= plan.max {
			return
		}
		if idx % plan.stride.max(1) != plan.phase % plan.stride.max(1) {
			return
		}
		self.take_snapshot(&plan.kind, kind, file, before, idx);
	}

	pub fn take_snapshot(&mut self, kind: &SnapKind, ev: Ev, file: &str, before: bool, idx: u32) {
		self.snap_counter += 1;
		let dir = format!("{}/img{:05}", self.snap_base, self.snap_counter);
		let _ = std::fs::create_dir_all(&dir);
		let mut names: Vec<String> = std::fs::read_dir(&self.root)
			.map(|rd| {
				rd.filter_map(|e| e.ok())
					.filter(|e| e.file_type().map(|t| t.is_file()).unwrap_or(false))
					.filter_map(|e| e.file_name().into_string().ok())
					.collect()
			})
			.unwrap_or_default();
		names.sort();
		let mut snap = Snapshot {
			dir: dir.clone(),
			seq: self.seq,
			ev,
			file: file.to_string(),
			before,
			step_event_index: idx,
			dirty_pages_total: 0,
			dirty_pages_kept: 0,
			log_tail_cut: false,
		};
		match kind {
			SnapKind::Proc => {
				for n in &names {
					if n == "lock" {
						continue
					}
					copy_sparse(&format!("{}{}", self.root, n), &format!("{}/{}", dir, n));
				}
				self.counters.snapshots_proc += 1;
			},
			SnapKind::Power { p_num, p_den } => {
				for n in &names {
					if n == "lock" {
						continue
					}
					let src = format!("{}{}", self.root, n);
					let dst = format!("{}/{}", dir, n);
					match classify(n) {
						FileClass::Other => copy_sparse(&src, &dst),
						FileClass::Table => {
							let live = read_sparse(&src);
							let empty = Shadow::default();
							let dur = self.shadow.get(n).unwrap_or(&empty);
							let mut out = Shadow { size: live.size, pages: HashMap::new() };
							let mut pgs: Vec<u64> =
								live.pages.keys().chain(dur.pages.keys()).cloned().collect();
							pgs.sort();
							pgs.dedup();
							for p in pgs {
								let l = live.pages.get(&p);
								let d = dur.pages.get(&p);
								let same = match (l, d) {
									(Some(a), Some(b)) => a == b,
									(None, None) => true,
									_ => false,
								};
								let take_live = if same {
									true
								} else {
									snap.dirty_pages_total += 1;
									let k = self.rng.below(*p_den as u64) < *p_num as u64;
									if k {
										snap.dirty_pages_kept += 1;
									}
									k
								};
								let src_pg = if take_live { l } else { d };
								if let Some(pg) = src_pg {
									if (p * PAGE as u64) < out.size {
										out.pages.insert(p, pg.clone());
									}
								}
							}
							write_sparse(&dst, &out);
						},
						FileClass::Log => {
							if let Some(old) = self.pending_trunc.get(n) {
								// truncated, not yet synced: the old content may still be what the disk holds
								if self.rng.below(2) == 0 {
									self.counters.trunc_reverted += 1;
									let _ = std::fs::write(&dst, &flatten(old));
									continue
								}
							}
							let live = read_flat(&src);
							let empty = Shadow::default();
							let dur = self.shadow.get(n).unwrap_or(&empty);
							let dur_flat = flatten(dur);
							let is_prefix =
								dur_flat.len() <= live.len() && live[..dur_flat.len()] == dur_flat[..];
							let out: Vec<u8> = if is_prefix {
								let extra = live.len() - dur_flat.len();
								let t = if extra == 0 {
									0
								} else {
									match self.rng.below(6) {
										0 => 0,
										1 => extra,
										2 => extra.saturating_sub(1 + self.rng.below(4) as usize),
										3 => (self.rng.below(extra as u64 + 1) as usize / PAGE) * PAGE,
										_ => self.rng.below(extra as u64 + 1) as usize,
									}
								};
								if t < extra {
									snap.log_tail_cut = true;
								}
								live[..dur_flat.len() + t].to_vec()
							} else {
								// Not an append-only difference: fall back to the durable content.
								snap.log_tail_cut = true;
								dur_flat
							};
							let _ = std::fs::write(&dst, &out);
						},
					}
				}
				self.counters.snapshots_power += 1;
			},
		}
		self.snapshots.push(snap);
	}

	/// durable := live for one file.
	fn sync_file(&mut self, name: &str) {
		self.pending_trunc.remove(name);
		let sh = read_sparse(&format!("{}{}", self.root, name));
		self.shadow.insert(name.to_string(), sh);
	}

	/// durable := live for the pages of one file that intersect [off, off+len).
	fn sync_range(&mut self, name: &str, off: u64, len: u64) {
		let live = read_sparse(&format!("{}{}", self.root, name));
		let end = std::cmp::min(off.saturating_add(len), live.size);
		let sh = self.shadow.entry(name.to_string()).or_default();
		if off >= end {
			return
		}
		let (p0, p1) = (off / PAGE as u64, (end + PAGE as u64 - 1) / PAGE as u64);
		if p0 == 0 && end >= live.size {
			*sh = live;
			return
		}
		sh.pages.retain(|p, _| *p < p0 || *p >= p1);
		for (p, pg) in live.pages {
			if p >= p0 && p < p1 {
				sh.pages.insert(p, pg);
			}
		}
		sh.size = std::cmp::max(sh.size, end);
	}

	/// Number of 4 KiB pages (or log bytes) by which live differs from durable, per file.
	pub fn dirty_report(&self) -> Vec<(String, u32)> {
		let mut out = Vec::new();
		let names: Vec<String> = std::fs::read_dir(&self.root)
			.map(|rd| rd.filter_map(|e| e.ok()).filter_map(|e| e.file_name().into_string().ok()).collect())
			.unwrap_or_default();
		for n in names {
			if classify(&n) == FileClass::Other {
				continue
			}
			let d = self.dirty_pages_of(&n);
			if !d.is_empty() {
				out.push((n, d.len() as u32));
			}
		}
		out.sort();
		out
	}

	pub fn dirty_pages_of(&self, name: &str) -> Vec<u64> {
		let live = read_sparse(&format!("{}{}", self.root, name));
		let empty = Shadow::default();
		let dur = self.shadow.get(name).unwrap_or(&empty);
		let mut pgs: Vec<u64> = live.pages.keys().chain(dur.pages.keys()).cloned().collect();
		pgs.sort();
		pgs.dedup();
		let mut out = Vec::new();
		for p in pgs {
			let same = match (live.pages.get(&p), dur.pages.get(&p)) {
				(Some(a), Some(b)) => a == b,
				(None, None) => true,
				_ => false,
			};
			if !same {
				out.push(p);
			}
		}
		if live.size != dur.size && out.is_empty() && classify(name) == FileClass::Log {
			out.push(u64::MAX);
		}
		out
	}

	// -- C12 ordering monitor ------------------------------------------------------------------

	/// At a read from a log file: the log must be fully durable (write-ahead clause).
	fn monitor_log_read(&mut self, name: &str) {
		if !self.monitor {
			return
		}
		if self.step_logs_read.iter().any(|n| n == name) {
			return
		}
		self.step_logs_read.push(name.to_string());
		self.counters.monitor_checks += 1;
		let d = self.dirty_pages_of(name);
		if !d.is_empty() {
			self.monitor_violations.push(MonitorViolation {
				clause: "write-ahead: log read for enactment while not synced",
				detail: format!("{} has {} unsynced page(s) when first read in this step", name, d.len()),
				seq: self.seq,
			});
		}
	}

	/// At truncate / unlink of a log file: no table page may be dirty (reclaim clause).
	fn monitor_log_reclaim(&mut self, name: &str, what: &str) {
		if !self.monitor {
			return
		}
		// Reclaiming an empty or never-synced-and-empty log is harmless.
		let live_len = std::fs::metadata(format!("{}{}", self.root, name)).map(|m| m.len()).unwrap_or(0);
		if live_len == 0 {
			return
		}
		self.counters.monitor_checks += 1;
		let names: Vec<String> = self.shadow.keys().cloned().collect();
		let mut live_names: Vec<String> = std::fs::read_dir(&self.root)
			.map(|rd| rd.filter_map(|e| e.ok()).filter_map(|e| e.file_name().into_string().ok()).collect())
			.unwrap_or_default();
		live_names.extend(names);
		live_names.sort();
		live_names.dedup();
		for n in live_names {
			if classify(&n) != FileClass::Table {
				continue
			}
			if !std::path::Path::new(&format!("{}{}", self.root, n)).exists() {
				continue
			}
			let mut d = self.dirty_pages_of(&n);
			// Whitelist: the first 16 KiB of an index file hold statistics, deliberately not
			// covered by the WAL nor by IndexTable::flush.
			if n.starts_with("index_") {
				d.retain(|p| *p >= 4);
			}
			if !d.is_empty() {
				self.monitor_violations.push(MonitorViolation {
					clause: "reclaim: log truncated/deleted while table pages unflushed",
					detail: format!(
						"{} of {} while {} has {} dirty page(s), first {}",
						what,
						name,
						n,
						d.len(),
						d[0]
					),
					seq: self.seq,
				});
				return
			}
		}
	}
}

// ---------------------------------------------------------------------------------------------
// Sparse file helpers (always called muted)

pub fn read_sparse(path: &str) -> Shadow {
	use std::os::unix::io::AsRawFd;
	let mut sh = Shadow::default();
	let Ok(f) = std::fs::File::open(path) else { return sh };
	let fd = f.as_raw_fd();
	let size = f.metadata().map(|m| m.len()).unwrap_or(0);
	sh.size = size;
	let mut pos: i64 = 0;
	let mut buf = vec![0u8; PAGE];
	while (pos as u64) < size {
		let data = unsafe { libc::lseek(fd, pos, libc::SEEK_DATA) };
		if data < 0 {
			break
		}
		let hole = unsafe { libc::lseek(fd, data, libc::SEEK_HOLE) };
		let hole = if hole < 0 { size as i64 } else { hole };
		let mut p = (data as u64 / PAGE as u64) * PAGE as u64;
		while p < hole as u64 && p < size {
			let n = unsafe { libc::pread(fd, buf.as_mut_ptr() as *mut c_void, PAGE, p as off_t) };
			if n <= 0 {
				break
			}
			let n = n as usize;
			for b in buf[n..].iter_mut() {
				*b = 0;
			}
			if buf.iter().any(|b| *b != 0) {
				sh.pages.insert(p / PAGE as u64, buf.clone().into_boxed_slice());
			}
			p += PAGE as u64;
		}
		pos = hole;
	}
	sh
}

pub fn write_sparse(path: &str, sh: &Shadow) {
	use std::os::unix::io::AsRawFd;
	let Ok(f) = std::fs::OpenOptions::new().create(true).write(true).truncate(true).open(path) else {
		return
	};
	let _ = f.set_len(sh.size);
	let fd = f.as_raw_fd();
	let mut pgs: Vec<&u64> = sh.pages.keys().collect();
	pgs.sort();
	for p in pgs {
		let off = *p * PAGE as u64;
		if off >= sh.size {
			continue
		}
		let n = std::cmp::min(PAGE as u64, sh.size - off) as usize;
		unsafe {
			libc::pwrite(fd, sh.pages[p].as_ptr() as *const c_void, n, off as off_t);
		}
	}
}

pub fn copy_sparse(src: &str, dst: &str) {
	let sh = read_sparse(src);
	write_sparse(dst, &sh);
}

pub fn read_flat(path: &str) -> Vec<u8> {
	std::fs::read(path).unwrap_or_default()
}

pub fn flatten(sh: &Shadow) -> Vec<u8> {
	let mut v = vec![0u8; sh.size as usize];
	for (p, pg) in &sh.pages {
		let off = (*p as usize) * PAGE;
		if off >= v.len() {
			continue
		}
		let n = std::cmp::min(PAGE, v.len() - off);
		v[off..off + n].copy_from_slice(&pg[..n]);
	}
	v
}

/// Copy a whole flat directory (files only), sparse-aware, in sorted name order.
pub fn copy_dir(src: &str, dst: &str, skip_lock: bool) {
	let _ = std::fs::create_dir_all(dst);
	let mut names: Vec<String> = std::fs::read_dir(src)
		.map(|rd| {
			rd.filter_map(|e| e.ok())
				.filter(|e| e.file_type().map(|t| t.is_file()).unwrap_or(false))
				.filter_map(|e| e.file_name().into_string().ok())
				.collect()
		})
		.unwrap_or_default();
	names.sort();
	for n in names {
		if skip_lock && n == "lock" {
			continue
		}
		copy_sparse(&format!("{}/{}", src, n), &format!("{}/{}", dst, n));
	}
}

// ---------------------------------------------------------------------------------------------
// Raw syscalls

unsafe fn set_errno(e: i32) {
	*libc::__errno_location() = e;
}

unsafe fn raw_open(path: *const c_char, flags: c_int, mode: mode_t) -> c_int {
	libc::syscall(libc::SYS_openat, libc::AT_FDCWD, path, flags, mode as c_uint) as c_int
}

// ---------------------------------------------------------------------------------------------
// Interposed entry points

unsafe fn open_impl(path: *const c_char, flags: c_int, mode: mode_t) -> c_int {
	if !hooked() {
		return raw_open(path, flags, mode)
	}
	let p = CStr::from_ptr(path).to_string_lossy().into_owned();
	let d = disk();
	let Some(rel) = d.rel(&p) else { return raw_open(path, flags, mode) };
	IN_HOOK = true;
	let existed = std::path::Path::new(&p).exists();
	let creating = (flags & libc::O_CREAT) != 0 && !existed;
	let kind = if creating { Ev::Create } else { Ev::Open };
	if d.armed {
		d.step_events += 1;
	}
	let r;
	if let Some(e) = d.inject(kind) {
		d.record(kind, &rel, flags as u64, 0, -(e as i64));
		set_errno(e);
		r = -1;
	} else {
		d.maybe_snapshot(kind, &rel, true);
		let fd = raw_open(path, flags, mode);
		let saved = *libc::__errno_location();
		if fd >= 0 {
			d.fds.insert(fd, rel.clone());
			if creating {
				d.shadow.insert(rel.clone(), Shadow::default());
			}
			if (flags & libc::O_TRUNC) != 0 {
				if let Some(sh) = d.shadow.get_mut(&rel) {
					sh.size = 0;
					sh.pages.clear();
				}
			}
		}
		d.record(kind, &rel, flags as u64, 0, if fd >= 0 { 0 } else { -(saved as i64) });
		d.maybe_snapshot(kind, &rel, false);
		if d.armed && kind.is_crash_point() {
			d.step_crash_points += 1;
		}
		set_errno(saved);
		r = fd;
	}
	IN_HOOK = false;
	r
}

#[no_mangle]
pub unsafe extern "C" fn open64(path: *const c_char, flags: c_int, mode: mode_t) -> c_int {
	open_impl(path, flags, mode)
}

#[no_mangle]
pub unsafe extern "C" fn open(path: *const c_char, flags: c_int, mode: mode_t) -> c_int {
	open_impl(path, flags, mode)
}

#[no_mangle]
pub unsafe extern "C" fn close(fd: c_int) -> c_int {
	if hooked() {
		let d = disk();
		if let Some(name) = d.fds.remove(&fd) {
			IN_HOOK = true;
			d.record(Ev::Close, &name, 0, 0, 0);
			IN_HOOK = false;
		}
	}
	libc::syscall(libc::SYS_close, fd) as c_int
}

#[no_mangle]
pub unsafe extern "C" fn read(fd: c_int, buf: *mut c_void, count: size_t) -> ssize_t {
	if !hooked() {
		return libc::syscall(libc::SYS_read, fd, buf, count) as ssize_t
	}
	let d = disk();
	let Some(name) = d.fds.get(&fd).cloned() else {
		return libc::syscall(libc::SYS_read, fd, buf, count) as ssize_t
	};
	IN_HOOK = true;
	if d.armed {
		d.step_events += 1;
	}
	let r: ssize_t;
	if let Some(e) = d.inject(Ev::Read) {
		d.record(Ev::Read, &name, count as u64, 0, -(e as i64));
		set_errno(e);
		r = -1;
	} else if d.buggify.eintr_one_in > 0 && d.rng.below(d.buggify.eintr_one_in as u64) == 0 {
		d.counters.eintr += 1;
		d.record(Ev::Read, &name, count as u64, 0, -(libc::EINTR as i64));
		set_errno(libc::EINTR);
		r = -1;
	} else {
		if classify(&name) == FileClass::Log {
			d.monitor_log_read(&name);
		}
		let mut n = count;
		if d.buggify.max_read > 0 && n > 1 && d.rng.below(2) == 0 {
			n = 1 + d.rng.below(std::cmp::min(n - 1, d.buggify.max_read) as u64) as usize;
			d.counters.short_reads += 1;
		}
		d.maybe_snapshot(Ev::Read, &name, true);
		let res = libc::syscall(libc::SYS_read, fd, buf, n) as ssize_t;
		let saved = *libc::__errno_location();
		d.record(Ev::Read, &name, count as u64, n as u64, res as i64);
		d.maybe_snapshot(Ev::Read, &name, false);
		if d.armed {
			d.step_crash_points += 1;
		}
		set_errno(saved);
		r = res;
	}
	IN_HOOK = false;
	r
}

#[no_mangle]
pub unsafe extern "C" fn write(fd: c_int, buf: *const c_void, count: size_t) -> ssize_t {
	if !hooked() {
		return libc::syscall(libc::SYS_write, fd, buf, count) as ssize_t
	}
	let d = disk();
	let Some(name) = d.fds.get(&fd).cloned() else {
		return libc::syscall(libc::SYS_write, fd, buf, count) as ssize_t
	};
	IN_HOOK = true;
	if d.armed {
		d.step_events += 1;
	}
	let r: ssize_t;
	if let Some(e) = d.inject(Ev::Write) {
		d.record(Ev::Write, &name, count as u64, 0, -(e as i64));
		set_errno(e);
		r = -1;
	} else if d.buggify.eintr_one_in > 0 && d.rng.below(d.buggify.eintr_one_in as u64) == 0 {
		d.counters.eintr += 1;
		d.record(Ev::Write, &name, count as u64, 0, -(libc::EINTR as i64));
		set_errno(libc::EINTR);
		r = -1;
	} else {
		let mut n = count;
		if d.buggify.max_write > 0 && n > 1 && d.rng.below(2) == 0 {
			n = 1 + d.rng.below(std::cmp::min(n - 1, d.buggify.max_write) as u64) as usize;
			d.counters.short_writes += 1;
		}
		d.maybe_snapshot(Ev::Write, &name, true);
		let res = libc::syscall(libc::SYS_write, fd, buf, n) as ssize_t;
		let saved = *libc::__errno_location();
		d.record(Ev::Write, &name, count as u64, n as u64, res as i64);
		d.maybe_snapshot(Ev::Write, &name, false);
		if d.armed {
			d.step_crash_points += 1;
		}
		set_errno(saved);
		r = res;
	}
	IN_HOOK = false;
	r
}

unsafe fn lseek_impl(fd: c_int, offset: off_t, whence: c_int) -> off_t {
	if hooked() {
		let d = disk();
		if let Some(name) = d.fds.get(&fd).cloned() {
			IN_HOOK = true;
			if d.armed {
				d.step_events += 1;
			}
			if let Some(e) = d.inject(Ev::Lseek) {
				d.record(Ev::Lseek, &name, offset as u64, whence as u64, -(e as i64));
				set_errno(e);
				IN_HOOK = false;
				return -1
			}
			let res = libc::syscall(libc::SYS_lseek, fd, offset, whence) as off_t;
			let saved = *libc::__errno_location();
			d.record(Ev::Lseek, &name, offset as u64, whence as u64, res as i64);
			set_errno(saved);
			IN_HOOK = false;
			return res
		}
	}
	libc::syscall(libc::SYS_lseek, fd, offset, whence) as off_t
}

#[no_mangle]
pub unsafe extern "C" fn lseek64(fd: c_int, offset: off_t, whence: c_int) -> off_t {
	lseek_impl(fd, offset, whence)
}

#[no_mangle]
pub unsafe extern "C" fn lseek(fd: c_int, offset: off_t, whence: c_int) -> off_t {
	lseek_impl(fd, offset, whence)
}

unsafe fn ftruncate_impl(fd: c_int, len: off_t) -> c_int {
	if !hooked() {
		return libc::syscall(libc::SYS_ftruncate, fd, len) as c_int
	}
	let d = disk();
	let Some(name) = d.fds.get(&fd).cloned() else {
		return libc::syscall(libc::SYS_ftruncate, fd, len) as c_int
	};
	IN_HOOK = true;
	if d.armed {
		d.step_events += 1;
	}
	let r;
	if let Some(e) = d.inject(Ev::Trunc) {
		d.record(Ev::Trunc, &name, len as u64, 0, -(e as i64));
		set_errno(e);
		r = -1;
	} else {
		if classify(&name) == FileClass::Log && len == 0 {
			d.monitor_log_reclaim(&name, "ftruncate");
		}
		d.maybe_snapshot(Ev::Trunc, &name, true);
		let res = libc::syscall(libc::SYS_ftruncate, fd, len) as c_int;
		let saved = *libc::__errno_location();
		if res == 0 {
			// Size changes made by an explicit truncate are modelled as immediately durable
			// (journaled metadata, in order); page contents are not.
			if classify(&name) == FileClass::Log && len == 0 {
				if let Some(old) = d.shadow.get(&name) {
					if old.size > 0 && !d.pending_trunc.contains_key(&name) {
						let old = old.clone();
						d.pending_trunc.insert(name.clone(), old);
					}
				}
			}
			let sh = d.shadow.entry(name.clone()).or_default();
			let new = len as u64;
			if new < sh.size {
				let keep = (new + PAGE as u64 - 1) / PAGE as u64;
				sh.pages.retain(|p, _| *p < keep);
				if new % PAGE as u64 != 0 {
					if let Some(pg) = sh.pages.get_mut(&(new / PAGE as u64)) {
						for b in pg[(new % PAGE as u64) as usize..].iter_mut() {
							*b = 0;
						}
					}
				}
			}
			sh.size = new;
		}
		d.record(Ev::Trunc, &name, len as u64, 0, res as i64);
		d.maybe_snapshot(Ev::Trunc, &name, false);
		if d.armed {
			d.step_crash_points += 1;
		}
		set_errno(saved);
		r = res;
	}
	IN_HOOK = false;
	r
}

#[no_mangle]
pub unsafe extern "C" fn ftruncate64(fd: c_int, len: off_t) -> c_int {
	ftruncate_impl(fd, len)
}

#[no_mangle]
pub unsafe extern "C" fn ftruncate(fd: c_int, len: off_t) -> c_int {
	ftruncate_impl(fd, len)
}

unsafe fn sync_impl(fd: c_int, kind: Ev, nr: c_long) -> c_int {
	if !hooked() {
		return libc::syscall(nr, fd) as c_int
	}
	let d = disk();
	let Some(name) = d.fds.get(&fd).cloned() else { return libc::syscall(nr, fd) as c_int };
	IN_HOOK = true;
	if d.armed {
		d.step_events += 1;
	}
	let r;
	if let Some(e) = d.inject(kind) {
		d.record(kind, &name, 0, 0, -(e as i64));
		set_errno(e);
		r = -1;
	} else {
		d.maybe_snapshot(kind, &name, true);
		// The kernel call itself is skipped: tmpfs has nothing to flush; durability is the model.
		d.sync_file(&name);
		d.record(kind, &name, 0, 0, 0);
		d.maybe_snapshot(kind, &name, false);
		if d.armed {
			d.step_crash_points += 1;
		}
		r = 0;
	}
	IN_HOOK = false;
	r
}

#[no_mangle]
pub unsafe extern "C" fn fsync(fd: c_int) -> c_int {
	sync_impl(fd, Ev::Fsync, libc::SYS_fsync)
}

#[no_mangle]
pub unsafe extern "C" fn fdatasync(fd: c_int) -> c_int {
	sync_impl(fd, Ev::Fdatasync, libc::SYS_fdatasync)
}

#[no_mangle]
pub unsafe extern "C" fn msync(addr: *mut c_void, len: size_t, flags: c_int) -> c_int {
	if !hooked() {
		return libc::syscall(libc::SYS_msync, addr, len, flags) as c_int
	}
	let d = disk();
	let a = addr as usize;
	let Some((name, file_off)) =
		d.maps.iter().find(|m| a >= m.addr && a < m.addr + m.len).map(|m| (m.file.clone(), m.off + (a - m.addr) as u64))
	else {
		return libc::syscall(libc::SYS_msync, addr, len, flags) as c_int
	};
	IN_HOOK = true;
	if d.armed {
		d.step_events += 1;
	}
	let r;
	if let Some(e) = d.inject(Ev::Msync) {
		d.record(Ev::Msync, &name, len as u64, 0, -(e as i64));
		set_errno(e);
		r = -1;
	} else {
		d.maybe_snapshot(Ev::Msync, &name, true);
		// only the pages of the named range become durable
		d.sync_range(&name, file_off, len as u64);
		d.record(Ev::Msync, &name, len as u64, 0, 0);
		d.maybe_snapshot(Ev::Msync, &name, false);
		if d.armed {
			d.step_crash_points += 1;
		}
		r = 0;
	}
	IN_HOOK = false;
	r
}

unsafe fn mmap_impl(
	addr: *mut c_void,
	len: size_t,
	prot: c_int,
	flags: c_int,
	fd: c_int,
	off: off_t,
) -> *mut c_void {
	if !hooked() || fd < 0 {
		return libc::syscall(libc::SYS_mmap, addr, len, prot, flags, fd, off) as *mut c_void
	}
	let d = disk();
	let Some(name) = d.fds.get(&fd).cloned() else {
		return libc::syscall(libc::SYS_mmap, addr, len, prot, flags, fd, off) as *mut c_void
	};
	IN_HOOK = true;
	if d.armed {
		d.step_events += 1;
	}
	let r;
	if let Some(e) = d.inject(Ev::Mmap) {
		d.record(Ev::Mmap, &name, len as u64, 0, -(e as i64));
		set_errno(e);
		r = libc::MAP_FAILED;
	} else {
		d.maybe_snapshot(Ev::Mmap, &name, true);
		let res = libc::syscall(libc::SYS_mmap, addr, len, prot, flags, fd, off) as *mut c_void;
		let saved = *libc::__errno_location();
		if res != libc::MAP_FAILED {
			d.maps.push(MapInfo { addr: res as usize, len, file: name.clone(), off: off as u64 });
		}
		d.record(Ev::Mmap, &name, len as u64, 0, if res == libc::MAP_FAILED { -1 } else { 0 });
		if d.armed {
			d.step_crash_points += 1;
		}
		set_errno(saved);
		r = res;
	}
	IN_HOOK = false;
	r
}

#[no_mangle]
pub unsafe extern "C" fn mmap(
	addr: *mut c_void,
	len: size_t,
	prot: c_int,
	flags: c_int,
	fd: c_int,
	off: off_t,
) -> *mut c_void {
	mmap_impl(addr, len, prot, flags, fd, off)
}

#[no_mangle]
pub unsafe extern "C" fn mmap64(
	addr: *mut c_void,
	len: size_t,
	prot: c_int,
	flags: c_int,
	fd: c_int,
	off: off_t,
) -> *mut c_void {
	mmap_impl(addr, len, prot, flags, fd, off)
}

#[no_mangle]
pub unsafe extern "C" fn munmap(addr: *mut c_void, len: size_t) -> c_int {
	if hooked() {
		let d = disk();
		let a = addr as usize;
		if let Some(i) = d.maps.iter().position(|m| m.addr == a) {
			IN_HOOK = true;
			let m = d.maps.remove(i);
			d.record(Ev::Munmap, &m.file, len as u64, 0, 0);
			IN_HOOK = false;
		}
	}
	libc::syscall(libc::SYS_munmap, addr, len) as c_int
}

#[no_mangle]
pub unsafe extern "C" fn unlink(path: *const c_char) -> c_int {
	if !hooked() {
		return libc::syscall(libc::SYS_unlinkat, libc::AT_FDCWD, path, 0) as c_int
	}
	let p = CStr::from_ptr(path).to_string_lossy().into_owned();
	let d = disk();
	let Some(rel) = d.rel(&p) else {
		return libc::syscall(libc::SYS_unlinkat, libc::AT_FDCWD, path, 0) as c_int
	};
	IN_HOOK = true;
	if d.armed {
		d.step_events += 1;
	}
	let r;
	if let Some(e) = d.inject(Ev::Unlink) {
		d.record(Ev::Unlink, &rel, 0, 0, -(e as i64));
		set_errno(e);
		r = -1;
	} else {
		if classify(&rel) == FileClass::Log {
			d.monitor_log_reclaim(&rel, "unlink");
		}
		d.maybe_snapshot(Ev::Unlink, &rel, true);
		let res = libc::syscall(libc::SYS_unlinkat, libc::AT_FDCWD, path, 0) as c_int;
		let saved = *libc::__errno_location();
		if res == 0 {
			d.shadow.remove(&rel);
		}
		d.record(Ev::Unlink, &rel, 0, 0, res as i64);
		d.maybe_snapshot(Ev::Unlink, &rel, false);
		if d.armed {
			d.step_crash_points += 1;
		}
		set_errno(saved);
		r = res;
	}
	IN_HOOK = false;
	r
}

#[no_mangle]
pub unsafe extern "C" fn rename(old: *const c_char, new: *const c_char) -> c_int {
	let res = libc::syscall(libc::SYS_renameat, libc::AT_FDCWD, old, libc::AT_FDCWD, new) as c_int;
	if hooked() && res == 0 {
		let saved = *libc::__errno_location();
		let o = CStr::from_ptr(old).to_string_lossy().into_owned();
		let n = CStr::from_ptr(new).to_string_lossy().into_owned();
		let d = disk();
		if let (Some(ro), Some(rn)) = (d.rel(&o), d.rel(&n)) {
			IN_HOOK = true;
			if let Some(sh) = d.shadow.remove(&ro) {
				d.shadow.insert(rn.clone(), sh);
			}
			d.record(Ev::Rename, &ro, 0, 0, 0);
			IN_HOOK = false;
		}
		set_errno(saved);
	}
	res
}

#[no_mangle]
pub unsafe extern "C" fn getrandom(buf: *mut c_void, len: size_t, flags: c_uint) -> ssize_t {
	if RAND_ACTIVE.load(Ordering::Relaxed) && OWNER.load(Ordering::Relaxed) == gettid() {
		RAND_CALLS += 1;
		let s = std::slice::from_raw_parts_mut(buf as *mut u8, len);
		let mut r = Rng(RAND_STATE);
		r.fill(s);
		RAND_STATE = r.0;
		return len as ssize_t
	}
	libc::syscall(libc::SYS_getrandom, buf, len, flags) as ssize_t
}

/// Self-check: which interposed symbols were exercised (by kind) so far.
pub fn kinds_seen() -> [u64; 16] {
	with(|d| d.counters.by_kind)
}
