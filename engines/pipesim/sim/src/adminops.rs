//! Column administration and option checks (C17). Filled in later.
use crate::exec::Exec;
use crate::world::*;

pub fn admin(_ex: &mut Exec, _a: &AdminOp) {}
