//! Column administration and option checks (C17).

use crate::exec::{column_options, Exec};
use crate::prng::fnv64;
use crate::simdisk;
use crate::world::*;
use parity_db::Db;
use std::sync::Arc;

/// Hash of a directory: names, sizes and content of every file except `lock`.
pub fn dir_hash(dir: &str) -> u64 {
	simdisk::muted(|| {
		let mut names: Vec<String> = std::fs::read_dir(dir)
			.map(|rd| rd.filter_map(|e| e.ok()).filter_map(|e| e.file_name().into_string().ok()).collect())
			.unwrap_or_default();
		names.sort();
		let mut h = 0u64;
		for n in names {
			if n == "lock" {
				continue
			}
			h = fnv64(h, n.as_bytes());
			let sh = simdisk::read_sparse(&format!("{dir}/{n}"));
			h = fnv64(h, &sh.size.to_le_bytes());
			let mut pgs: Vec<&u64> = sh.pages.keys().collect();
			pgs.sort();
			for p in pgs {
				h = fnv64(h, &p.to_le_bytes());
				h = fnv64(h, &sh.pages[p]);
			}
		}
		h
	})
}

fn empty_model(kind: ColKind) -> ColModel {
	if kind.is_tree() {
		ColModel::Tree(TreeModel::default())
	} else {
		ColModel::Kv(KvModel::default())
	}
}

fn new_col_cfg(kind: ColKind, seed: u64) -> ColCfg {
	let mut r = crate::prng::Rng::new(seed);
	let mut keys = Vec::new();
	for i in 0..6u8 {
		let mut k = vec![0u8; if kind == ColKind::HashUniform { 32 } else { 5 + i as usize }];
		r.fill(&mut k);
		keys.push(k);
	}
	let preimage_vals =
		if kind.is_preimage() { keys.iter().map(|_| ValSpec { len: 12, seed: r.next(), compressible: false }).collect() } else { Vec::new() };
	ColCfg { kind, compression: 0, threshold: 4096, keys, preimage_vals, bulk: None }
}

pub fn admin(ex: &mut Exec, a: &AdminOp, pending: bool) {
	if !ex.has_db() || crate::treeops::any_locked(ex) {
		return
	}
	ex.stats.probe("admin_ops");
	let n = ex.hist.len() - 1;
	let lo = ex.n_synced;
	let hi = ex.logged();
	// 1. close: cleanly, or continue on an image with unreplayed logs
	if pending {
		let live = ex.live.clone();
		let img = ex.next_dir("adm");
		simdisk::muted(|| simdisk::copy_dir(&live, &img, true));
		ex.abandon();
		simdisk::muted(|| {
			let _ = std::fs::remove_dir_all(&live);
		});
		ex.live = img.clone();
		simdisk::with(|d| d.set_root(&img));
		let has_logs = simdisk::muted(|| {
			std::fs::read_dir(&img)
				.map(|rd| {
					rd.filter_map(|e| e.ok())
						.any(|e| e.file_name().to_str().map_or(false, |n| n.starts_with("log")) && e.metadata().map(|m| m.len() > 0).unwrap_or(false))
				})
				.unwrap_or(false)
		});
		if has_logs {
			ex.stats.probe("admin_with_pending_logs");
		}
	} else {
		ex.close();
		ex.mark_restart();
	}
	let dir = ex.live.clone();
	let mut options = ex.options_for(&dir);
	let affected: Option<usize>;
	let mut new_kinds = ex.col_kinds.clone();
	let mut new_cfgs = ex.col_cfgs.clone();
	match a {
		AdminOp::OpenMismatch { col, field } => {
			let c = *col as usize % options.columns.len();
			let before = dir_hash(&dir);
			let mut o2 = options.clone();
			let co = &mut o2.columns[c];
			match field % 7 {
				0 => co.preimage = !co.preimage,
				1 => co.uniform = !co.uniform,
				2 => co.ref_counted = !co.ref_counted,
				3 =>
					co.compression = if co.compression == parity_db::CompressionType::NoCompression {
						parity_db::CompressionType::Lz4
					} else {
						parity_db::CompressionType::NoCompression
					},
				4 => co.btree_index = !co.btree_index,
				5 => co.multitree = !co.multitree,
				_ => co.append_only = !co.append_only,
			}
			if o2.columns.iter().all(|c| c.is_valid()) {
				match Db::open(&o2) {
					Ok(db) => {
						drop(db);
						ex.push_violation("C17", "mismatch-accepted", format!("open with a differing flag (field {}) of column {c} succeeded", field % 7));
					},
					Err(_) => {
						ex.stats.probe("admin_mismatch_refused");
						let after = dir_hash(&dir);
						if after != before {
							ex.push_violation("C17", "failed-open-modified-files", format!("a refused open (flag {} of column {c} differs) modified database files", field % 7));
						}
					},
				}
			}
			affected = None;
		},
		AdminOp::OpenWrongCount(d) => {
			let before = dir_hash(&dir);
			let mut o2 = options.clone();
			if *d < 0 && o2.columns.len() > 1 {
				o2.columns.pop();
			} else {
				o2.columns.push(Default::default());
			}
			match Db::open(&o2) {
				Ok(db) => {
					drop(db);
					ex.push_violation("C17", "mismatch-accepted", "open with a different number of columns succeeded".into());
				},
				Err(_) => {
					let after = dir_hash(&dir);
					if after != before {
						ex.push_violation("C17", "failed-open-modified-files", "a refused open (column count differs) modified database files".into());
					}
				},
			}
			// also: a missing database without create
			let missing = format!("{dir}-missing");
			let o3 = ex.options_for(&missing);
			if Db::open(&o3).is_ok() || simdisk::muted(|| std::path::Path::new(&missing).exists()) {
				ex.push_violation("C17", "missing-db-created", "open without create on a missing path succeeded or created something".into());
			}
			affected = None;
		},
		AdminOp::AddColumn(kind) => {
			let k = ColKind::parse(kind);
			let cc = new_col_cfg(k, fnv64(0, kind.as_bytes()) ^ n as u64);
			match Db::add_column(&mut options, column_options(&cc)) {
				Ok(()) => {
					new_kinds.push(k);
					new_cfgs.push(cc);
					affected = Some(new_kinds.len() - 1);
				},
				Err(e) => {
					ex.push_violation("C17", "admin-call-failed", format!("add_column failed: {e}"));
					return
				},
			}
		},
		AdminOp::DropLastColumn => {
			if new_kinds.len() < 2 {
				affected = None;
			} else {
				match Db::drop_last_column(&mut options) {
					Ok(()) => {
						new_kinds.pop();
						new_cfgs.pop();
						affected = Some(usize::MAX);
					},
					Err(e) => {
						ex.push_violation("C17", "admin-call-failed", format!("drop_last_column failed: {e}"));
						return
					},
				}
			}
		},
		AdminOp::ResetColumn(c, kind) => {
			let c = *c as usize % new_kinds.len();
			let newopt = kind.as_ref().map(|k| {
				let kk = ColKind::parse(k);
				let cc = new_col_cfg(kk, fnv64(0, k.as_bytes()) ^ n as u64);
				(kk, cc)
			});
			// In a third of the resets that change the options the first file removal fails (EIO, and
			// every later one): nothing has been removed yet, so the database must be exactly what it
			// was and must still open with its old options.
			let faulted = ex.cfg.scenario == "admin" && newopt.is_some() && (n + c) % 3 == 0;
			if faulted {
				simdisk::with(|d| {
					d.fail_plan = Some(simdisk::FailPlan { after: 0, errno: libc::EIO, sticky: true, only_mask: 1u32 << simdisk::Ev::Unlink as u32 });
					d.fail_tripped = false;
					d.fail_count = 0;
					d.begin_step();
				});
			}
			let mut o2 = options.clone();
			let r = Db::reset_column(&mut o2, c as u8, newopt.as_ref().map(|(_, cc)| column_options(cc)));
			let fired = if faulted {
				simdisk::with(|d| {
					let f = d.fail_count > 0;
					d.end_step();
					d.clear_faults();
					f
				})
			} else {
				false
			};
			match r {
				Ok(()) => {
					options = o2;
					if let Some((kk, cc)) = newopt {
						new_kinds[c] = kk;
						new_cfgs[c] = cc;
					}
					affected = Some(c);
				},
				Err(_) if fired => {
					ex.stats.probe("admin_reset_failed_by_injected_unlink_error");
					match Db::open(&options) {
						Ok(db) => {
							drop(db);
							affected = None;
						},
						Err(e) => {
							ex.push_violation(
								"C17",
								"failed-reset-left-database-unopenable",
								format!("reset_column of column {c} failed at its first file removal (injected EIO); the database no longer opens with its previous options: {e}"),
							);
							return
						},
					}
				},
				Err(e) => {
					ex.push_violation("C17", "admin-call-failed", format!("reset_column failed: {e}"));
					return
				},
			}
		},
		AdminOp::ClearColumn(c) => {
			let c = *c as usize % new_kinds.len();
			match parity_db::clear_column(std::path::Path::new(&dir), c as u8) {
				Ok(()) => affected = Some(c),
				Err(e) => {
					ex.push_violation("C17", "admin-call-failed", format!("clear_column failed: {e}"));
					return
				},
			}
		},
	}
	// 1b. nothing of the affected column may be left on disk
	if let Some(c) = affected {
		let c = if c == usize::MAX { new_kinds.len() } else { c };
		let is_new = matches!(a, AdminOp::AddColumn(_));
		if !is_new {
			let left: Vec<String> = simdisk::muted(|| {
				std::fs::read_dir(&dir)
					.map(|rd| {
						rd.filter_map(|e| e.ok())
							.filter_map(|e| e.file_name().into_string().ok())
							.filter(|n| {
								n.starts_with(&format!("table_{c:02}_")) ||
									n.starts_with(&format!("index_{c:02}_")) ||
									n.starts_with(&format!("refcount_{c:02}_"))
							})
							.collect()
					})
					.unwrap_or_default()
			});
			if !left.is_empty() {
				ex.push_violation("C17", "column-files-left", format!("after {:?} the files {:?} of column {c} are still there", a, left));
				return
			}
		}
	}
	// 2. the model: other columns unchanged, affected column empty / new / gone
	let transform = |cols: &Vec<ColModel>| -> Vec<ColModel> {
		let mut v = cols.clone();
		match affected {
			None => {},
			Some(usize::MAX) => {
				v.pop();
			},
			Some(c) if c >= v.len() => v.push(empty_model(new_kinds[c])),
			Some(c) => v[c] = empty_model(new_kinds[c]),
		}
		v
	};
	let new_hist: Vec<State> = ex.hist.iter().map(|s| Arc::new(transform(s))).collect();
	ex.col_kinds = new_kinds;
	ex.col_cfgs = new_cfgs;
	ex.ncols = ex.col_kinds.len();
	ex.hist = new_hist;
	ex.cur = (*ex.hist[ex.hist.len() - 1]).clone();
	ex.resize_cols();
	// 3. reopen and compare
	let (lo, hi) = if pending { (lo, hi) } else { (n, n) };
	if ex.verify_and_adopt(&dir, lo, hi, &format!("open after {:?}{}", a, if pending { " on a directory with unreplayed logs" } else { "" }), false).is_some() {
		ex.collapse_history();
		ex.sweep();
	}
}

// ---------------------------------------------------------------------------------------------
// C20: migration

pub fn migrate(ex: &mut Exec, dest: &[(String, u8)], overwrite: bool, force: &[u8], pending: bool) {
	if !ex.has_db() || crate::treeops::any_locked(ex) || dest.len() != ex.col_kinds.len() {
		return
	}
	ex.stats.probe("migrate_ops");
	let n = ex.hist.len() - 1;
	let lo = ex.n_synced;
	let hi = ex.logged();
	// 1. the source: cleanly closed, or a copy that still has unreplayed logs
	let src = if pending {
		let live = ex.live.clone();
		let img = ex.next_dir("migsrc");
		simdisk::muted(|| simdisk::copy_dir(&live, &img, true));
		ex.abandon();
		simdisk::muted(|| {
			let _ = std::fs::remove_dir_all(&live);
		});
		img
	} else {
		ex.close();
		ex.mark_restart();
		ex.live.clone()
	};
	if pending {
		// settle which prefix the source holds (opening replays its logs)
		ex.live = src.clone();
		match ex.verify_and_adopt(&src, lo, hi, "open of the migration source with unreplayed logs", false) {
			Some(_) => {
				ex.close();
				ex.mark_restart();
			},
			None => return,
		}
	}
	let _ = n;
	let model_before: Vec<ColModel> = ex.cur.clone();
	let src_hash_before = dir_hash(&src);
	// 2. destination options
	let dst = ex.next_dir("migdst");
	let mut to = ex.options_for(&dst);
	let mut new_cfgs = ex.col_cfgs.clone();
	let mut new_kinds = ex.col_kinds.clone();
	for (i, (k, comp)) in dest.iter().enumerate() {
		let kind = ColKind::parse(k);
		new_kinds[i] = kind;
		new_cfgs[i].kind = kind;
		new_cfgs[i].compression = *comp;
		to.columns[i] = column_options(&new_cfgs[i]);
	}
	let r = parity_db::migrate(std::path::Path::new(&src), to.clone(), overwrite, force);
	if let Err(e) = r {
		ex.push_violation("C20", "migrate-failed", format!("migrate returned {e}"));
		return
	}
	// 3. expected content of the destination: every key with its value and count
	let mut expect = model_before.clone();
	for (i, kind) in new_kinds.iter().enumerate() {
		if let ColModel::Kv(m) = &mut expect[i] {
			if !kind.is_rc() {
				for v in m.map.values_mut() {
					v.1 = 1;
				}
			}
		}
	}
	// 4. the source must be unchanged unless overwrite was requested
	if !overwrite {
		let after = dir_hash(&src);
		if after != src_hash_before {
			ex.stats.probe("migrate_source_bytes_changed");
		}
		// logical content through a reopen with the old options
		ex.live = src.clone();
		simdisk::with(|d| d.set_root(&src));
		if ex.reopen_quiet() {
			ex.stats.probe("migrate_source_reopened");
			let before = ex.viol.len();
			ex.sweep();
			ex.drained_checks();
			if ex.viol.len() > before {
				for v in ex.viol.iter_mut().skip(before) {
					v.prop = "C20".into();
					v.class = format!("source-changed:{}", v.class);
				}
				return
			}
			ex.close();
		} else {
			ex.push_violation("C20", "source-unopenable", format!("the migration source cannot be opened any more: {}", ex.last_open_error));
			return
		}
	}
	// 5. switch to the destination (or the overwritten source) with the new options
	let target = if overwrite { src.clone() } else { dst.clone() };
	ex.col_kinds = new_kinds;
	ex.col_cfgs = new_cfgs;
	ex.cur = expect;
	let st: State = Arc::new(ex.cur.clone());
	ex.hist = vec![st];
	ex.collapse_history();
	ex.resize_cols();
	ex.live = target.clone();
	simdisk::with(|d| d.set_root(&target));
	if !ex.reopen_quiet() {
		ex.push_violation("C20", "destination-unopenable", format!("the migrated database cannot be opened: {}", ex.last_open_error));
		return
	}
	let before = ex.viol.len();
	ex.sweep();
	ex.drained_checks();
	for v in ex.viol.iter_mut().skip(before) {
		v.prop = "C20".into();
		v.class = format!("destination:{}", v.class);
	}
}
