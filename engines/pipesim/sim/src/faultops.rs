//! I/O error injection (C16) and log mutation (C13). Filled in later.
use crate::exec::Exec;
use crate::world::*;

pub fn ioerr(_ex: &mut Exec, _inner: &Op, _after: u32, _errno: i32, _tryio: bool) {}
pub fn stash_logs(_ex: &mut Exec) {}
pub fn logfuzz(_ex: &mut Exec, _muts: &[LogMutation], _adopt: bool) {}
