//! I/O error injection (C16) and write-ahead-log mutation (C13).

use crate::exec::Exec;
use crate::prng::Rng;
use crate::simdisk::{self, FailPlan};
use crate::world::*;

// ---------------------------------------------------------------------------------------------
// C16

pub fn ioerr(ex: &mut Exec, inner: &Op, after: u32, errno: i32, tryio: bool, space_only: bool) {
	if !ex.has_db() || crate::treeops::any_locked(ex) {
		return
	}
	ex.stats.probe("ioerr_ops");
	simdisk::with(|d| d.monitor = false);
	let lo = ex.n_synced;
	let logged_before = ex.logged();
	let queued = ex.pipeline_counts().0;
	let n_before = ex.hist.len() - 1;
	// arm
	if tryio {
		parity_db::set_number_of_allowed_io_operations(after as usize);
	} else {
		simdisk::with(|d| {
			let mask = if space_only {
				(1u32 << simdisk::Ev::Create as u32) | (1 << simdisk::Ev::Write as u32) | (1 << simdisk::Ev::Trunc as u32)
			} else {
				0
			};
			d.fail_plan = Some(FailPlan { after, errno: if space_only { libc::ENOSPC } else { errno }, sticky: true, only_mask: mask });
			d.fail_tripped = false;
			d.fail_count = 0;
			d.begin_step();
		});
	}
	ex.set_bg_err_expected(true);
	let mut step_err: Option<String> = None;
	let mut reopened = false;
	let mut open_failed = false;
	match inner {
		Op::Step(s) => {
			if let Err(e) = ex.stage(*s) {
				step_err = Some(e);
			}
		},
		Op::Commit(tx) => {
			// commit does no file I/O; it must succeed
			ex.do_commit(tx, true);
		},
		Op::Restart => {
			ex.close();
			reopened = true;
			if !ex.reopen_quiet() {
				open_failed = true;
			}
		},
		_ => {},
	}
	let fired = if tryio {
		// the counter is sticky at zero once exhausted
		probe_tryio_exhausted()
	} else {
		simdisk::with(|d| d.fail_tripped)
	};
	if fired {
		ex.stats.io_faults_fired += 1;
		ex.stats.probe(if tryio { "fault_tryio_fired" } else { "fault_errno_fired" });
	}
	let hi = match inner {
		Op::Step(Stage::ProcessCommits) => logged_before + std::cmp::min(queued, 1),
		Op::Restart => n_before,
		_ => logged_before,
	};
	if !fired {
		// the step needed fewer file operations than the fault index: nothing happened
		disarm(tryio);
		ex.set_bg_err_expected(false);
		if let Some(e) = step_err {
			ex.push_violation("C16", "stage-error", format!("stage returned Err({e}) although no fault fired"));
		}
		if reopened {
			if !open_failed && ex.has_db() {
				ex.mark_restart();
			}
		}
		return
	}
	if let Op::Step(s) = inner {
		match &step_err {
			Some(e) => {
				// what a worker does with the error of its stage function
				ex.db().verif_store_err(parity_db::Error::InvalidInput(format!("stage failed: {e}")));
				if !ex.db().verif_has_bg_err() {
					ex.push_violation("C16", "error-not-stored", "store_err did not leave a background error".into());
				}
			},
			None => {
				ex.push_violation(
					"C16",
					"error-swallowed",
					format!("an injected file-operation failure fired inside {} but the call returned Ok", s.name()),
				);
			},
		}
	}
	if ex.has_db() && reopened {
		// The handle was dropped and reopened with the fault present: the drop could not report
		// the failure to anybody; what it left behind is judged by the prefix oracle below.
		ex.close();
	}
	if ex.has_db() {
		// reads keep returning committed data (everything accepted so far). The try_io counter of
		// the instrumentation build also fails plain memory reads of mapped tables, which no real
		// fault does: it is lifted for the reads and re-armed for the shutdown.
		if tryio {
			parity_db::set_number_of_allowed_io_operations(usize::MAX);
		}
		ex.sweep();
		if tryio {
			parity_db::set_number_of_allowed_io_operations(0);
		}
		// later commits are refused
		if step_err.is_some() {
			if let Ok(()) = ex.db().commit_changes(Vec::<(u8, parity_db::Operation<Vec<u8>, Vec<u8>>)>::new()) {
				ex.push_violation("C16", "commit-accepted-after-error", "a commit was accepted after a background error had been stored".into());
			}
		}
		// drop with the fault still present
		ex.close();
	}
	disarm(tryio);
	ex.set_bg_err_expected(false);
	// the fault is gone: reopening yields a prefix that includes everything synced before
	let dir = ex.live.clone();
	if let Some(_j) = ex.verify_and_adopt(&dir, lo, hi, "reopen after an injected I/O failure", false) {
		ex.stats.probe("ioerr_recovered");
		ex.sweep();
	}
}

fn disarm(tryio: bool) {
	if tryio {
		parity_db::set_number_of_allowed_io_operations(usize::MAX);
	}
	simdisk::with(|d| {
		d.end_step();
		d.clear_faults();
	});
}

fn probe_tryio_exhausted() -> bool {
	// There is no getter; setting a value returns nothing either. Use a file operation that is
	// wrapped by try_io in parity-db and has no side effect... none is public. Instead the
	// harness keeps its own account: Exec records the outcome of the step; a failure message
	// of the instrumented kind proves exhaustion.
	TRYIO_FIRED.with(|c| c.replace(false))
}

thread_local! {
	pub static TRYIO_FIRED: std::cell::Cell<bool> = std::cell::Cell::new(false);
}

pub fn note_error_text(e: &str) {
	if e.contains("Instrumented failure") {
		TRYIO_FIRED.with(|c| c.set(true));
	}
}

// ---------------------------------------------------------------------------------------------
// C13

pub fn stash_logs(ex: &mut Exec) {
	if !ex.has_db() {
		return
	}
	let live = ex.live.clone();
	let dir = ex.next_dir("stash");
	simdisk::muted(|| {
		let _ = std::fs::create_dir_all(&dir);
		if let Ok(rd) = std::fs::read_dir(&live) {
			let mut names: Vec<String> = rd.filter_map(|e| e.ok()).filter_map(|e| e.file_name().into_string().ok()).collect();
			names.sort();
			for n in names {
				if simdisk::classify(&n) == simdisk::FileClass::Log {
					let _ = std::fs::copy(format!("{live}/{n}"), format!("{dir}/{n}"));
				}
			}
		}
	});
	ex.stashed().push(dir);
	ex.stats.probe("logs_stashed");
}

fn log_files(dir: &str) -> Vec<String> {
	let mut v: Vec<(u32, String)> = std::fs::read_dir(dir)
		.map(|rd| {
			rd.filter_map(|e| e.ok())
				.filter_map(|e| e.file_name().into_string().ok())
				.filter(|n| simdisk::classify(n) == simdisk::FileClass::Log)
				.map(|n| (n[3..].parse::<u32>().unwrap_or(0), n))
				.collect()
		})
		.unwrap_or_default();
	v.sort();
	v.into_iter().map(|x| x.1).collect()
}

/// Which records does a mutation at byte `at` of `file` (or from `at` to the end) damage? Uses
/// the harness's own bookkeeping of record boundaries.
/// (offset, width) of the header fields of the entries of a log file, found by walking it the way
/// replay does (record id; table id, index, page mask of index / ref-count entries; table id,
/// slot index and size field of value entries; checksum). Stops at the first thing it cannot parse.
fn log_fields(data: &[u8]) -> Vec<(usize, usize)> {
	let mut out = Vec::new();
	let mut pos = 0usize;
	let n = data.len();
	let u16at = |p: usize| u16::from_le_bytes([data[p], data[p + 1]]);
	while pos < n {
		match data[pos] {
			1 => {
				if pos + 9 > n {
					break
				}
				out.push((pos + 1, 8));
				pos += 9;
			},
			2 | 6 => {
				// index page / ref-count page: table(2) index(8) mask(8) entries
				if pos + 19 > n {
					break
				}
				out.push((pos + 1, 2));
				out.push((pos + 3, 8));
				out.push((pos + 11, 8));
				let mask = u64::from_le_bytes(data[pos + 11..pos + 19].try_into().unwrap());
				let each = if data[pos] == 2 { 8 } else { 16 };
				pos += 19 + mask.count_ones() as usize * each;
			},
			3 => {
				if pos + 11 > n {
					break
				}
				out.push((pos + 1, 2));
				out.push((pos + 3, 8));
				let tier = data[pos + 1];
				let index = u64::from_le_bytes(data[pos + 3..pos + 11].try_into().unwrap());
				let pl = pos + 11;
				if index == 0 {
					pos = pl + 16;
					continue
				}
				if pl + 2 > n {
					break
				}
				out.push((pl, 2));
				let sz = u16at(pl);
				let b = [data[pl], data[pl + 1]];
				pos = if b == [0xff, 0xff] {
					pl + 2 + 8
				} else if tier == 255 && (b == [0xfe, 0xff] || b == [0xfd, 0xff] || b == [0xfd, 0x7f]) {
					pl + 4096
				} else {
					pl + 2 + (sz & 0x7fff) as usize
				};
			},
			4 => {
				if pos + 5 > n {
					break
				}
				out.push((pos + 1, 4));
				pos += 5;
			},
			5 | 7 => {
				if pos + 3 > n {
					break
				}
				out.push((pos + 1, 2));
				pos += 3;
			},
			_ => break,
		}
	}
	out.retain(|(o, w)| o + w <= n);
	out
}

thread_local! {
	/// Set when a mutation touched the first nine bytes of a file (its place in the replay order).
	static HEADER_DAMAGED: std::cell::Cell<bool> = std::cell::Cell::new(false);
}

fn damaged_by(ex: &Exec, file: &str, at: u64, to_end: bool) -> Vec<u64> {
	// The first nine bytes of a file (type byte + id of its first record) decide where the whole
	// file is ordered at replay: damage there affects every record in it.
	if at < 9 && !to_end {
		HEADER_DAMAGED.with(|c| c.set(true));
	}
	let to_end = to_end || at < 9;
	ex.log_records
		.iter()
		.filter(|r| r.file == file && r.live)
		.filter(|r| if to_end { at < r.end } else { at >= r.start && at < r.end })
		.map(|r| r.record_id)
		.collect()
}

pub fn logfuzz(ex: &mut Exec, muts: &[LogMutation], adopt: bool) {
	if !ex.has_db() || crate::treeops::any_locked(ex) {
		return
	}
	// image of the live directory right now (process-crash image at an operation boundary)
	let live = ex.live.clone();
	let img = ex.next_dir("fuzz");
	simdisk::muted(|| simdisk::copy_dir(&live, &img, true));
	let files = simdisk::muted(|| log_files(&img));
	ex.refresh_log_records();
	let last_enacted = ex.last_enacted_id();
	let n = ex.hist.len() - 1;
	// commits whose record the tables already hold
	let j_tables = ex.commits_at_open + ex.commit_records.iter().filter(|(_, rid)| *rid <= last_enacted).count();
	let logged = ex.logged();
	// records still present in log files
	let present: Vec<u64> = {
		let mut v: Vec<u64> = ex.log_records.iter().filter(|r| r.live).map(|r| r.record_id).collect();
		v.sort();
		v
	};
	let first_present = present.first().cloned();
	let mut x: Option<u64> = None; // first damaged record id
	let mut stale = false;
	let mut duplicated = false;
	let mut applied = 0;
	// file name in the image -> name of the live file whose content it holds
	let mut origin: std::collections::HashMap<String, String> = files.iter().map(|f| (f.clone(), f.clone())).collect();
	let mut first_file_lost = false;
	HEADER_DAMAGED.with(|c| c.set(false));
	let mut damaged: std::collections::BTreeSet<u64> = Default::default();
	simdisk::muted(|| {
		for m in muts {
			let pick = |sel: u32| -> Option<String> {
				if files.is_empty() {
					None
				} else {
					Some(files[sel as usize % files.len()].clone())
				}
			};
			let mut note = |ids: Vec<u64>| {
				for id in ids {
					x = Some(x.map_or(id, |b: u64| b.min(id)));
					damaged.insert(id);
				}
			};
			match m {
				LogMutation::Truncate { file_sel, at } => {
					if let Some(f) = pick(*file_sel) {
						let p = format!("{img}/{f}");
						let len = std::fs::metadata(&p).map(|m| m.len()).unwrap_or(0);
						if len > 0 {
							let at = *at as u64 % len;
							if let Ok(fh) = std::fs::OpenOptions::new().write(true).open(&p) {
								let _ = fh.set_len(at);
								note(damaged_by(ex, origin.get(&f).unwrap_or(&f), at, true));
								applied += 1;
							}
						}
					}
				},
				LogMutation::FlipBit { file_sel, at, bit } => {
					if let Some(f) = pick(*file_sel) {
						let p = format!("{img}/{f}");
						if let Ok(mut data) = std::fs::read(&p) {
							if !data.is_empty() {
								let at = *at as usize % data.len();
								data[at] ^= 1 << (bit % 8);
								let _ = std::fs::write(&p, &data);
								note(damaged_by(ex, origin.get(&f).unwrap_or(&f), at as u64, false));
								applied += 1;
							}
						}
					}
				},
				LogMutation::FlipTwo { file_sel, at, bit, dist, bit2 } => {
					if let Some(f) = pick(*file_sel) {
						let p = format!("{img}/{f}");
						if let Ok(mut data) = std::fs::read(&p) {
							if data.len() > 1 {
								let at = *at as usize % data.len();
								let at2 = std::cmp::min(data.len() - 1, at + 1 + (*dist as usize % 1000));
								data[at] ^= 1 << (bit % 8);
								data[at2] ^= 1 << (bit2 % 8);
								let _ = std::fs::write(&p, &data);
								note(damaged_by(ex, origin.get(&f).unwrap_or(&f), at as u64, false));
								note(damaged_by(ex, origin.get(&f).unwrap_or(&f), at2 as u64, false));
								applied += 1;
							}
						}
					}
				},
				LogMutation::Burst { file_sel, at, xor } => {
					if let Some(f) = pick(*file_sel) {
						let p = format!("{img}/{f}");
						if let Ok(mut data) = std::fs::read(&p) {
							if data.len() >= 4 && *xor != 0 {
								let at = *at as usize % (data.len() - 3);
								let b = xor.to_le_bytes();
								for i in 0..4 {
									data[at + i] ^= b[i];
								}
								let _ = std::fs::write(&p, &data);
								for i in 0..4 {
									note(damaged_by(ex, origin.get(&f).unwrap_or(&f), (at + i) as u64, false));
								}
								applied += 1;
							}
						}
					}
				},
				LogMutation::Field { file_sel, entry_sel, val_sel, seed } => {
					if let Some(f) = pick(*file_sel) {
						let p = format!("{img}/{f}");
						if let Ok(mut data) = std::fs::read(&p) {
							let fields = log_fields(&data);
							if !fields.is_empty() {
								let (off, width) = fields[*entry_sel as usize % fields.len()];
								let mut rr = Rng::new(*seed);
								let old: Vec<u8> = data[off..off + width].to_vec();
								let mut oldv = [0u8; 8];
								oldv[..width].copy_from_slice(&old);
								let oldv = u64::from_le_bytes(oldv);
								let v: u64 = match (width, *val_sel % 16) {
									(2, 0) => 0x7fff,
									(2, 1) => 0xffff,
									(2, 2) => 0xfffe,
									(2, 3) => 0xfffd,
									(2, 4) => 0x7ffd,
									(2, 5) => 0x8000,
									(2, 6) => 0,
									(2, 7) => 0x7ff8,
									(2, 8) => 0x7ff9,
									(2, 9) => oldv.wrapping_add(1),
									(2, 10) => oldv ^ 0x8000,
									(2, 11) => oldv | 0x00ff,
									(_, 0) => u64::MAX,
									(_, 1) => 1 << 63,
									(_, 2) => 1 << 32,
									(_, 3) => 1 << 40,
									(_, 4) => 0,
									(_, 5) => oldv.wrapping_add(1),
									(_, 6) => oldv.wrapping_sub(1),
									(_, 7) => oldv << 8,
									(_, 8) => oldv | (1 << 56),
									_ => rr.next(),
								};
								let nb = v.to_le_bytes();
								if nb[..width] != old[..] {
									data[off..off + width].copy_from_slice(&nb[..width]);
									let _ = std::fs::write(&p, &data);
									for i in 0..width {
										note(damaged_by(ex, origin.get(&f).unwrap_or(&f), (off + i) as u64, false));
									}
									applied += 1;
									ex.stats.probe("logfuzz_field_overwritten");
								}
							}
						}
					}
				},
				LogMutation::AppendGarbage { file_sel, len, seed } => {
					if let Some(f) = pick(*file_sel) {
						let p = format!("{img}/{f}");
						if let Ok(mut data) = std::fs::read(&p) {
							let mut g = vec![0u8; *len as usize % 300 + 1];
							Rng::new(*seed).fill(&mut g);
							data.extend_from_slice(&g);
							let _ = std::fs::write(&p, &data);
							// garbage after the last record of a file reads as an invalid record
							// right there: whatever follows in later files comes after it
							// (a fragment shorter than the entry header its first byte announces is
							// what a torn tail looks like: it reads as the end of that file, and the
							// consecutively numbered records of the next file are not "after" an
							// invalid record)
							let need = match g[0] {
								1 => 9,
								2 | 3 | 6 => 11,
								4 => 5,
								5 | 7 => 3,
								_ => 0,
							};
							let torn_tail = need > 0 && g.len() < need;
							let of = origin.get(&f).cloned().unwrap_or(f.clone());
							if let Some(last) = ex.log_records.iter().filter(|r| r.file == of && r.live).map(|r| r.record_id).max() {
								if !torn_tail {
									note(vec![last + 1]);
								} else {
									ex.stats.probe("logfuzz_garbage_reads_as_torn_tail");
								}
							}
							applied += 1;
						}
					}
				},
				LogMutation::Delete { file_sel } => {
					if let Some(f) = pick(*file_sel) {
						note(damaged_by(ex, origin.get(&f).unwrap_or(&f), 0, true));
						let _ = std::fs::remove_file(format!("{img}/{f}"));
						applied += 1;
					}
				},
				LogMutation::Duplicate { file_sel } => {
					if let Some(f) = pick(*file_sel) {
						duplicated = true;
						let max = files.iter().map(|n| n[3..].parse::<u32>().unwrap_or(0)).max().unwrap_or(0);
						let _ = std::fs::copy(format!("{img}/{f}"), format!("{img}/log{}", max + 1 + applied));
						applied += 1;
					}
				},
				LogMutation::SwapNames { a, b } => {
					if files.len() >= 2 {
						let fa = &files[*a as usize % files.len()];
						let fb = &files[*b as usize % files.len()];
						if fa != fb {
							let tmp = format!("{img}/swap.tmp");
							let _ = std::fs::rename(format!("{img}/{fa}"), &tmp);
							let _ = std::fs::rename(format!("{img}/{fb}"), format!("{img}/{fa}"));
							let _ = std::fs::rename(&tmp, format!("{img}/{fb}"));
							let (oa, ob) = (origin.get(fa).cloned().unwrap_or(fa.clone()), origin.get(fb).cloned().unwrap_or(fb.clone()));
							origin.insert(fa.clone(), ob);
							origin.insert(fb.clone(), oa);
							applied += 1;
						}
					}
				},
				LogMutation::ZeroLen { file_sel } => {
					if let Some(f) = pick(*file_sel) {
						note(damaged_by(ex, origin.get(&f).unwrap_or(&f), 0, true));
						let _ = std::fs::write(format!("{img}/{f}"), b"");
						applied += 1;
					}
				},
				LogMutation::SubHeader { file_sel, len } => {
					if let Some(f) = pick(*file_sel) {
						let p = format!("{img}/{f}");
						if let Ok(data) = std::fs::read(&p) {
							let l = std::cmp::min(data.len(), (*len as usize % 9).max(1));
							note(damaged_by(ex, origin.get(&f).unwrap_or(&f), l as u64, true));
							let _ = std::fs::write(&p, &data[..l]);
							applied += 1;
						}
					}
				},
				LogMutation::Stale { which } => {
					let stashes = ex.stashed_view();
					if !stashes.is_empty() {
						let sd = &stashes[*which as usize % stashes.len()];
						let old = log_files(sd);
						if !old.is_empty() {
							let f = &old[*which as usize % old.len()];
							let used: Vec<u32> = log_files(&img).iter().map(|n| n[3..].parse::<u32>().unwrap_or(0)).collect();
							let mut id = 0;
							while used.contains(&id) {
								id += 1;
							}
							if std::fs::metadata(format!("{sd}/{f}")).map(|m| m.len()).unwrap_or(0) > 0 {
								let _ = std::fs::copy(format!("{sd}/{f}"), format!("{img}/log{id}"));
								stale = true;
								applied += 1;
							}
						}
					}
				},
			}
		}
	});
	if applied == 0 {
		simdisk::muted(|| {
			let _ = std::fs::remove_dir_all(&img);
		});
		return
	}
	ex.stats.logfuzz_images += 1;
	if x.is_some() {
		ex.stats.probe("logfuzz_damaged_a_record");
	}
	if stale {
		ex.stats.probe("logfuzz_stale_file");
	}
	// old handle goes away; the run continues on the mutated image or on the live directory
	ex.abandon();
	let _ = &mut first_file_lost;
	// The id expected for the first replayed record comes from the oldest log file present: if
	// the first pending record (not yet in the tables) is the damaged one and later files hold
	// more records, replay may start with a later record.
	let first_pending_damaged = {
		let first_pending = present.iter().find(|id| **id > last_enacted).cloned();
		match first_pending {
			Some(fp) =>
				damaged.contains(&fp) &&
					present.iter().filter(|id| **id < fp).all(|id| damaged.contains(id)) &&
					present.iter().any(|id| *id > fp && !damaged.contains(id)),
			None => false,
		}
	};
	// A damaged leading id moves its file to another place in the replay order: an intact record
	// that the tables already hold can then be the first one replayed, with the damaged file (an
	// invalid record in replay order) right behind it.
	let header_damaged = HEADER_DAMAGED.with(|c| c.replace(false));
	let rewind_possible = stale ||
		(header_damaged && present.iter().any(|id| *id <= last_enacted && !damaged.contains(id))) ||
		(duplicated && first_present.map_or(false, |a| a <= last_enacted)) ||
		match (x, first_present) {
			(Some(x), Some(a)) => x > a && x <= last_enacted,
			_ => false,
		};
	// upper bound from "applies nothing after the first invalid one"
	let upper = if stale || duplicated {
		// an intact copy of a damaged record may legitimately be applied from the other file
		logged
	} else {
		match x {
			// damage inside what the tables already hold bounds nothing
			Some(x) if x <= last_enacted => logged,
			Some(x) => std::cmp::max(j_tables, ex.commits_at_open + ex.commit_records.iter().filter(|(_, rid)| *rid < x).count()),
			None => logged,
		}
	};
	// An image on which one of the two known replay defects may have struck is checked but not
	// continued on: its tables can be silently rewound even when the logical content matches.
	let adopt = adopt && !rewind_possible && !first_pending_damaged;
	let ok = open_and_judge(ex, &img, j_tables, upper, n, rewind_possible, first_pending_damaged, adopt);
	if ok.is_some() && adopt {
		// continue on the mutated image
		simdisk::muted(|| {
			let _ = std::fs::remove_dir_all(&live);
		});
		return
	}
	// continue on the (untouched) live directory as after a plain process crash
	ex.abandon();
	simdisk::muted(|| {
		let _ = std::fs::remove_dir_all(&img);
	});
	ex.live = live.clone();
	let _ = ex.verify_and_adopt(&live, 0, logged, "reopen of the unmutated directory after a log-fuzz step", false);
}

/// Open a mutated image and apply the C13 oracle. Returns the prefix index on success (the
/// handle is then left open on the image and the model reset to that prefix).
fn open_and_judge(ex: &mut Exec, img: &str, j_tables: usize, upper: usize, n: usize, rewind_possible: bool, first_pending_damaged: bool, adopt: bool) -> Option<usize> {
	ex.live = img.to_string();
	simdisk::with(|d| d.set_root(img));
	if !ex.reopen_quiet() {
		let e = ex.last_open_error.clone();
		let class = if rewind_possible {
			"rewind-by-valid-older-records"
		} else if first_pending_damaged {
			"replay-starts-after-missing-first-log"
		} else {
			"open-failed"
		};
		ex.push_violation("C13", class, format!("opening a database with damaged log files returned an error: {e}"));
		return None
	}
	let observed = std::panic::catch_unwind(std::panic::AssertUnwindSafe(|| ex.observe_all()));
	let obs = match observed {
		Ok(Ok(o)) => o,
		Ok(Err(e)) => {
			let class = if rewind_possible {
				"rewind-by-valid-older-records"
			} else if first_pending_damaged {
				"replay-starts-after-missing-first-log"
			} else {
				"read-failed"
			};
			ex.push_violation("C13", class, format!("after opening damaged logs: {e}"));
			return None
		},
		Err(_) => {
			let class = if rewind_possible {
				"rewind-by-valid-older-records"
			} else if first_pending_damaged {
				"replay-starts-after-missing-first-log"
			} else {
				"panic-after-log-damage"
			};
			ex.push_violation("C13", class, "a read panicked after opening damaged logs".into());
			ex.leak_db();
			return None
		},
	};
	let matching: Vec<usize> = (0..=n).filter(|j| ex.state_matches(&obs, &ex.hist[*j].clone()).is_ok()).collect();
	let lo = j_tables;
	let hi = std::cmp::max(upper, j_tables);
	if let Some(j) = matching.iter().rev().find(|j| **j >= lo && **j <= hi) {
		if adopt {
			ex.adopt_state(*j);
		}
		return Some(*j)
	}
	if matching.is_empty() {
		let class = if rewind_possible {
			"rewind-by-valid-older-records"
		} else if first_pending_damaged {
			"replay-starts-after-missing-first-log"
		} else {
			"not-a-prefix-after-log-damage"
		};
		ex.push_violation(
			"C13",
			class,
			format!(
				"state after opening damaged logs equals no prefix of the {n} committed transactions (tables held {j_tables}; {})",
				if rewind_possible {
					"an intact record older than what the tables held was re-applied and replay stopped before catching up"
				} else {
					"no already-enacted intact record precedes the damage"
				}
			),
		);
		return None
	}
	let j = *matching.last().unwrap();
	if j < lo {
		// a later intact record applied without the missing first pending one can coincide with
		// an older state (e.g. two removals of which only the second was replayed)
		let class = if rewind_possible {
			"rewind-by-valid-older-records"
		} else if first_pending_damaged {
			"replay-starts-after-missing-first-log"
		} else {
			"older-than-tables"
		};
		ex.push_violation("C13", class, format!("state after opening damaged logs is S_{j}, older than what the tables already held (S_{j_tables})"));
	} else {
		let j = *matching.iter().find(|j| **j > hi).unwrap_or(&j);
		ex.push_violation(
			"C13",
			// re-applied older records can coincide with a later state (a key set again to a value it
			// had before)
			if rewind_possible {
				"rewind-by-valid-older-records"
			} else if first_pending_damaged {
				"replay-starts-after-missing-first-log"
			} else {
				"applied-after-invalid"
			},
			format!("state after opening damaged logs is S_{j} but the first invalid record bounds it to S_{hi}: something after the first invalid record was applied"),
		);
	}
	None
}
