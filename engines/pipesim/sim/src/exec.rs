//! Executor: runs an explicit operation list against parity-db and the reference models,
//! evaluating the oracles after every operation. A pure function of (RunCfg, ops).

use crate::prng::{fnv64, mix64, Rng};
use crate::simdisk::{self, SnapKind, SnapPlan};
use crate::structural;
use crate::world::*;
use parity_db::{ColumnOptions, CompressionType, Db, Operation, Options};
use std::collections::{BTreeMap, BTreeSet, HashSet};
use std::sync::Arc;

#[derive(Clone, Debug)]
pub struct Violation {
	pub prop: String,
	pub class: String,
	pub detail: String,
	pub op_index: usize,
}

#[derive(Clone, Debug, Default)]
pub struct RunStats {
	pub ops: u64,
	pub commits: u64,
	pub steps: u64,
	pub restarts: u64,
	pub reads_checked: u64,
	pub full_sweeps: u64,
	pub nonempty_reads: u64,
	pub commits_enacted: u64,
	pub crash_ops: u64,
	pub images_checked: u64,
	pub images_midstep: u64,
	pub images_in_recovery: u64,
	pub power_images_with_dropped_pages: u64,
	pub power_images_with_cut_tail: u64,
	pub iter_calls: u64,
	pub drained_points: u64,
	pub structural_checks: u64,
	pub stage_vectors: BTreeSet<u64>,
	pub probes: BTreeMap<String, u64>,
	pub recovered_j_lt_u: u64,
	pub io_faults_fired: u64,
	pub logfuzz_images: u64,
	pub crash_points: BTreeMap<String, u64>,
}

impl RunStats {
	pub fn probe(&mut self, name: &str) {
		*self.probes.entry(name.to_string()).or_insert(0) += 1;
	}
	pub fn probe_n(&mut self, name: &str, n: u64) {
		*self.probes.entry(name.to_string()).or_insert(0) += n;
	}
}

pub struct RunResult {
	pub violations: Vec<Violation>,
	pub stats: RunStats,
	pub fingerprint: u64,
	pub counters: simdisk::Counters,
	pub ops_executed: usize,
}

type BIter = parity_db::BTreeIterator<'static>;

#[derive(Clone, Debug, PartialEq)]
enum IterPos {
	Start,
	End,
	Seeked(Vec<u8>),
	At(Vec<u8>),
}

pub struct Exec<'a> {
	pub cfg: &'a RunCfg,
	pub ncols: usize,
	pub base: String,
	pub live: String,
	db: Option<Db>,
	iters: Vec<Option<(BIter, IterPos)>>,
	/// S_0 .. S_n
	pub hist: Vec<State>,
	pub cur: Vec<ColModel>,
	/// Number of commits whose record is known to be on stable storage.
	pub n_synced: usize,
	/// Commits accepted since the last (re)open, for the touched-keys check.
	recent: Vec<Vec<(u8, usize)>>,
	pub viol: Vec<Violation>,
	pub stats: RunStats,
	pub op_index: usize,
	restarts: u32,
	crashed_once: bool,
	bg_err_expected: bool,
	dir_counter: u32,
	map_prop: &'static str,
	pub col_kinds: Vec<ColKind>,
	pub col_cfgs: Vec<ColCfg>,
	stashed_logs: Vec<String>,
	entries_base: Vec<Option<u64>>,
	pub tree_rt: Vec<crate::treeops::TreeRt>,
	pub reject_ctx: bool,
	/// Record boundaries in log files, from the harness's own observation of each logging step.
	pub log_records: Vec<LogRec>,
	/// (commit index (1-based), record id) for commits logged since the last open.
	pub commit_records: Vec<(usize, u64)>,
	pub commits_at_open: usize,
	/// ids of all records logged since the last open, in order; the first `enacted_count` of
	/// them have been enacted.
	pub logged_ids: Vec<u64>,
	pub enacted_count: usize,
	quiet_open: bool,
	pub last_open_error: String,
	track_records: bool,
	pub locks_used: bool,
	/// Keys written by transactions that were committed while dereferencing a held tree: the
	/// whole transaction is postponed behind later ones (known C11 finding).
	pub deferral_victims: std::collections::HashSet<(u8, usize)>,
	/// A commit submitted after a postponed one names a key (or reuses nodes of a tree) the
	/// postponed one writes: the database applies the two in the other order than the model.
	pub victim_dependency: bool,
	pub victim_ctx: bool,
	/// Tree columns for which a crash lost a commit that had claimed value-table slots.
	pub claimed_leak: std::collections::HashSet<u8>,
	pub claim_ctx: bool,
	pub commit_lost_in_failed_step: bool,
	/// every accepted transaction, index i holds commit i+1
	pub tx_log: Vec<Vec<(u8, TxOp)>>,
	pub leak_expected: bool,
	pub deferral_happened: bool,
	/// per accepted commit since the last open: (all keys it names, tree keys it dereferences)
	pub commit_keys: Vec<(Vec<(u8, usize)>, Vec<(u8, usize)>)>,
}

#[derive(Clone, Debug)]
pub struct LogRec {
	pub file: String,
	pub start: u64,
	pub end: u64,
	pub record_id: u64,
	pub live: bool,
}

/// A commit was postponed behind later ones in the current run (known C11 finding): whatever
/// fails afterwards, including a panic or a call that never returns, is classified with it.
pub static DEFERRAL_SEEN: std::sync::atomic::AtomicBool = std::sync::atomic::AtomicBool::new(false);

pub fn map_property(scenario: &str) -> &'static str {
	match scenario {
		"kv" => "C01",
		"btree" => "C04",
		"sizes" => "C06",
		"rc" => "C07",
		"reindex" => "C09",
		"tree" => "C10",
		"treelock" => "C11",
		"crash" => "C02",
		"drop" => "C03",
		"power" => "C12",
		"logfuzz" => "C13",
		"ioerr" => "C16",
		"reject" => "C08",
		"admin" => "C17",
		"migrate" => "C20",
		"struct" => "C14",
		_ => "C01",
	}
}

fn compression(c: u8) -> CompressionType {
	match c {
		1 => CompressionType::Lz4,
		2 => CompressionType::Snappy,
		_ => CompressionType::NoCompression,
	}
}

pub fn column_options(c: &ColCfg) -> ColumnOptions {
	let mut o = ColumnOptions::default();
	o.compression = compression(c.compression);
	match c.kind {
		ColKind::Hash => {},
		ColKind::HashUniform => o.uniform = true,
		ColKind::HashPreimage => o.preimage = true,
		ColKind::HashRc => {
			o.preimage = true;
			o.ref_counted = true;
		},
		ColKind::Btree => o.btree_index = true,
		ColKind::BtreeRc => {
			o.btree_index = true;
			o.preimage = true;
			o.ref_counted = true;
		},
		ColKind::Tree { append_only, rc_roots, direct } => {
			o.multitree = true;
			o.append_only = append_only;
			o.allow_direct_node_access = direct;
			if rc_roots {
				o.preimage = true;
				o.ref_counted = true;
			}
			o.compression = CompressionType::NoCompression;
		},
	}
	o
}

impl<'a> Exec<'a> {
	pub fn new(cfg: &'a RunCfg, base: &str) -> Exec<'a> {
		DEFERRAL_SEEN.store(false, std::sync::atomic::Ordering::SeqCst);
		let live = format!("{}/live0", base);
		Exec {
			cfg,
			ncols: cfg.cols.len(),
			base: base.to_string(),
			live,
			db: None,
			iters: cfg.cols.iter().map(|_| None).collect(),
			hist: vec![empty_state(cfg)],
			cur: (*empty_state(cfg)).clone(),
			n_synced: 0,
			recent: Vec::new(),
			viol: Vec::new(),
			stats: RunStats::default(),
			op_index: 0,
			restarts: 0,
			crashed_once: false,
			bg_err_expected: false,
			dir_counter: 0,
			map_prop: map_property(&cfg.scenario),
			col_kinds: cfg.cols.iter().map(|c| c.kind).collect(),
			col_cfgs: cfg.cols.clone(),
			stashed_logs: Vec::new(),
			entries_base: Vec::new(),
			tree_rt: Vec::new(),
			reject_ctx: false,
			log_records: Vec::new(),
			commit_records: Vec::new(),
			commits_at_open: 0,
			logged_ids: Vec::new(),
			enacted_count: 0,
			quiet_open: false,
			last_open_error: String::new(),
			track_records: cfg.scenario == "logfuzz",
			locks_used: false,
			deferral_victims: Default::default(),
			victim_dependency: false,
			victim_ctx: false,
			claimed_leak: Default::default(),
			claim_ctx: false,
			commit_lost_in_failed_step: false,
			tx_log: Vec::new(),
			leak_expected: false,
			deferral_happened: false,
			commit_keys: Vec::new(),
		}
	}

	pub fn options_for(&self, path: &str) -> Options {
		let mut o = Options::with_columns(std::path::Path::new(path), self.col_cfgs.len() as u8);
		o.sync_wal = self.cfg.sync_wal;
		o.sync_data = self.cfg.sync_data;
		o.stats = self.cfg.stats;
		o.salt = Some(self.cfg.salt());
		o.with_background_thread = false;
		o.always_flush = false;
		for (i, c) in self.col_cfgs.iter().enumerate() {
			o.columns[i] = column_options(c);
			o.compression_threshold.insert(i as u8, c.threshold);
		}
		o
	}

	fn violation(&mut self, prop: &str, class: &str, detail: String) {
		let (prop, class) = if (self.victim_ctx || self.deferral_happened) && (!class.starts_with("locked-tree") || self.victim_dependency) {
			("C11", format!("after-deferral:{class}"))
		} else if self.claim_ctx {
			("C14", format!("claimed-slots-leaked-by-crash:{class}"))
		} else if self.reject_ctx {
			("C08", format!("visible-after-reject:{class}"))
		} else if self.cfg.scenario == "admin" && (prop == "C02" || prop == "C03" || prop == "C14") {
			("C17", format!("after-admin:{class}"))
		} else if self.leak_expected && (prop == "C14" || class == "entries-changed" || class == "entry-count") {
			("C08", format!("tree-assembly-side-effect:{class}"))
		} else if (self.cfg.scenario == "sizes" || self.cfg.scenario == "tree") && prop == "C14" {
			// slot accounting / node ref counts are the storage clauses of C06 / C10 in their scenarios
			(self.map_prop, format!("storage:{class}"))
		} else if self.cfg.scenario == "reject" && prop == "C14" {
			("C08", format!("slot-leaked:{class}"))
		} else {
			(prop, class.to_string())
		};
		let class = class.as_str();
		if self.viol.iter().any(|v| v.prop == prop && v.class == class) {
			return
		}
		if self.viol.len() < 8 {
			self.viol.push(Violation {
				prop: prop.to_string(),
				class: class.to_string(),
				detail,
				op_index: self.op_index,
			});
		}
	}

	/// Does the run end here? A plain structural finding (C14) in a scenario owned by another
	/// property does not end it: the scenario's own oracles may still have something to say about
	/// the same defect (a corrupt free list shows up as a wrong read a few operations later), and
	/// a check reports only violations of its own property.
	pub fn should_stop(&self) -> bool {
		if self.viol.is_empty() {
			return false
		}
		self.viol.len() >= 3 || self.viol.iter().any(|v| v.prop == self.map_prop || v.prop != "C14" || v.class.contains(':'))
	}

	pub fn db(&self) -> &Db {
		self.db.as_ref().expect("db open")
	}

	fn n(&self) -> usize {
		self.hist.len() - 1
	}

	// -- open / close ---------------------------------------------------------------------------

	pub fn open_initial(&mut self) -> bool {
		simdisk::muted(|| {
			let _ = std::fs::create_dir_all(&self.live);
		});
		simdisk::with(|d| d.set_root(&self.live));
		self.open_db(true)
	}

	fn open_db(&mut self, create: bool) -> bool {
		let o = self.options_for(&self.live.clone());
		let r = if create { Db::open_or_create(&o) } else { Db::open(&o) };
		match r {
			Ok(db) => {
				self.db = Some(db);
				self.log_records.clear();
				self.logged_ids.clear();
				self.enacted_count = 0;
				self.commit_lost_in_failed_step = false;
				self.commit_keys.clear();
				self.commit_records.clear();
				self.commits_at_open = self.n();
				true
			},
			Err(e) => {
				self.last_open_error = format!("{e}");
				if !self.quiet_open {
					let p = if self.crashed_once { "C02" } else { self.map_prop };
					self.violation(p, "open-failed", format!("open returned {e}"));
				}
				false
			},
		}
	}

	pub fn reopen_quiet(&mut self) -> bool {
		self.quiet_open = true;
		let r = self.open_db(false);
		self.quiet_open = false;
		r
	}

	pub fn stashed_view(&self) -> Vec<String> {
		self.stashed_logs.clone()
	}

	fn log_sizes(&self) -> Vec<(String, u64)> {
		let live = self.live.clone();
		simdisk::muted(|| {
			let mut v: Vec<(String, u64)> = std::fs::read_dir(&live)
				.map(|rd| {
					rd.filter_map(|e| e.ok())
						.filter_map(|e| {
							let n = e.file_name().into_string().ok()?;
							if simdisk::classify(&n) == simdisk::FileClass::Log {
								Some((n, e.metadata().map(|m| m.len()).unwrap_or(0)))
							} else {
								None
							}
						})
						.collect()
				})
				.unwrap_or_default();
			v.sort();
			v
		})
	}

	/// After a logging step: find the record it appended (file, byte range, id).
	fn note_appended_record(&mut self, before: &[(String, u64)], queued_before: usize, is_commit_step: bool) {
		let after = self.log_sizes();
		for (name, len) in &after {
			let old = before.iter().find(|(n, _)| n == name).map(|x| x.1).unwrap_or(0);
			if *len > old {
				let path = format!("{}/{}", self.live, name);
				let id = simdisk::muted(|| {
					use std::io::{Read, Seek, SeekFrom};
					let mut f = std::fs::File::open(&path).ok()?;
					f.seek(SeekFrom::Start(old)).ok()?;
					let mut b = [0u8; 9];
					f.read_exact(&mut b).ok()?;
					if b[0] != 1 {
						return None
					}
					Some(u64::from_le_bytes(b[1..9].try_into().unwrap()))
				});
				if let Some(id) = id {
					self.log_records.push(LogRec { file: name.clone(), start: old, end: *len, record_id: id, live: true });
					self.logged_ids.push(id);
					if is_commit_step && queued_before > 0 && self.counts().0 + 1 == queued_before {
						let commit_idx = self.n() - queued_before + 1;
						self.commit_records.push((commit_idx, id));
					}
				}
			}
		}
	}

	/// Which recorded log records are still present in their file?
	pub fn refresh_log_records(&mut self) {
		let live = self.live.clone();
		let mut recs = std::mem::take(&mut self.log_records);
		simdisk::muted(|| {
			use std::io::{Read, Seek, SeekFrom};
			for r in recs.iter_mut() {
				r.live = (|| {
					let mut f = std::fs::File::open(format!("{}/{}", live, r.file)).ok()?;
					if f.metadata().ok()?.len() < r.end {
						return None
					}
					f.seek(SeekFrom::Start(r.start)).ok()?;
					let mut b = [0u8; 9];
					f.read_exact(&mut b).ok()?;
					if b[0] == 1 && u64::from_le_bytes(b[1..9].try_into().unwrap()) == r.record_id {
						Some(())
					} else {
						None
					}
				})()
				.is_some();
			}
		});
		recs.retain(|r| r.live);
		self.log_records = recs;
	}

	fn drop_iters(&mut self) {
		for it in self.iters.iter_mut() {
			*it = None;
		}
	}

	fn close_db(&mut self) {
		self.drop_iters();
		crate::treeops::release_all(self);
		// Deferral (C11) can re-queue commits forever (two commits that each dereference a tree
		// and insert a tree while that tree was held defer to one another); Drop would then spin
		// in its `while process_commits()` loop. Detect that with a bounded drain first.
		if self.db.is_some() && self.locks_used {
			let q0 = self.counts().0;
			let mut budget = q0 * 6 + 16;
			while self.counts().0 > 0 && budget > 0 {
				budget -= 1;
				let q = self.counts().0;
				if self.db().verif_process_commits().is_err() {
					break
				}
				if self.counts().0 == q {
					self.deferral_happened = true;
					DEFERRAL_SEEN.store(true, std::sync::atomic::Ordering::SeqCst);
				}
			}
			if self.counts().0 > 0 && budget == 0 {
				self.violation(
					"C11",
					"deferral-livelock",
					format!("after all tree locks were released, {} queued commit(s) keep being deferred: the postponed removal never completes", self.counts().0),
				);
				self.abandon_db();
				return
			}
		}
		// (Until fix e41ae0c a drop with more than four dirty logs blocked here for want of a
		// cleanup worker and the harness cleaned first; now the drop is taken as it comes.)
		if self.db.is_some() && self.counts().3 > 4 {
			self.stats.probe("drop_with_more_than_four_dirty_logs");
		}
		self.db = None;
	}

	/// Drop the handle of a crashed instance quickly: all its further file operations fail.
	fn abandon_db(&mut self) {
		self.drop_iters();
		crate::treeops::release_all(self);
		if let Some(db) = self.db.take() {
			simdisk::muted(|| {
				parity_db::set_number_of_allowed_io_operations(0);
				drop(db);
				parity_db::set_number_of_allowed_io_operations(usize::MAX);
			});
		}
	}

	// -- pipeline counts ------------------------------------------------------------------------

	fn counts(&self) -> (usize, usize, bool, usize, i64, u64, u64) {
		self.db().verif_pipeline_counts()
	}

	/// Nothing queued, nothing logged but not applied.
	pub fn pipeline_idle(&self) -> bool {
		let c = self.counts();
		c.0 == 0 && !c.2 && c.4 <= 0
	}

	fn n_logged(&self) -> usize {
		let q = self.counts().0;
		self.n().saturating_sub(q)
	}

	fn max_dirty(&self) -> usize {
		// enact_logs waits for the cleanup worker when *more than* 4 (16 without sync_data) consumed
		// logs are dirty after a record was applied; a call that meets the end of a file adds one and
		// returns. Without sync_data only logs beyond the 16 most recent are reclaimed, so the limit
		// has to be reachable (17 dirty) for reclamation to happen at all.
		if self.cfg.sync_data {
			4
		} else {
			17
		}
	}

	fn record_stage_vector(&mut self, tag: u64) {
		if self.db.is_none() {
			return
		}
		let c = self.counts();
		let files: u64 = 0;
		let mut h = 0u64;
		for x in [
			std::cmp::min(c.0, 3) as u64,
			c.2 as u64,
			std::cmp::min(c.3, 3) as u64,
			(c.4 > 0) as u64,
			(c.6 != 0) as u64,
			std::cmp::min(self.restarts, 2) as u64,
			files,
			tag,
		] {
			h = mix64(h ^ x).wrapping_add(0x9E37);
		}
		self.stats.stage_vectors.insert(h);
	}

	// -- model ----------------------------------------------------------------------------------

	fn key(&self, col: u8, k: usize) -> &Vec<u8> {
		&self.col_cfgs[col as usize].keys[k]
	}

	fn apply_to_model(&mut self, tx: &[(u8, TxOp)]) {
		for (c, op) in tx {
			let kind = self.col_kinds[*c as usize];
			let ccfg = &self.col_cfgs[*c as usize];
			match (&mut self.cur[*c as usize], op) {
				(ColModel::Kv(m), TxOp::Set(k, _) | TxOp::Del(k) | TxOp::Ref(k)) => {
					m.apply(kind, &ccfg.keys[*k], op, ccfg);
				},
				(ColModel::Kv(m), TxOp::RawRef(key)) => {
					m.apply(kind, key, op, ccfg);
				},
				(ColModel::Tree(_), _) => {
					crate::treeops::apply_model(self, *c, op);
				},
				_ => {},
			}
		}
	}

	fn to_db_tx(&mut self, tx: &[(u8, TxOp)]) -> Vec<(u8, Operation<Vec<u8>, Vec<u8>>)> {
		let mut out = Vec::new();
		for (c, op) in tx {
			let o = match op {
				TxOp::Set(k, v) => Operation::Set(self.key(*c, *k).clone(), v.bytes()),
				TxOp::Del(k) => Operation::Dereference(self.key(*c, *k).clone()),
				TxOp::Ref(k) => Operation::Reference(self.key(*c, *k).clone()),
				TxOp::RawRef(k) => Operation::Reference(k.clone()),
				TxOp::InsertTree(k, t) => {
					let node = crate::treeops::build_new_node(self, *c, t);
					Operation::InsertTree(self.key(*c, *k).clone(), node)
				},
				TxOp::RefTree(k) => Operation::ReferenceTree(self.key(*c, *k).clone()),
				TxOp::DerefTree(k) => Operation::DereferenceTree(self.key(*c, *k).clone()),
			};
			out.push((*c, o));
		}
		out
	}

	// -- reads ----------------------------------------------------------------------------------

	/// Check one key of a key-value column against the current model.
	fn check_key(&mut self, col: u8, k: usize) {
		let kind = self.col_kinds[col as usize];
		if kind.is_tree() {
			return
		}
		let key = self.key(col, k).clone();
		let expect = match &self.cur[col as usize] {
			ColModel::Kv(m) => m.map.get(&key).cloned(),
			_ => None,
		};
		let got = self.db().get(col, &key);
		let got_size = self.db().get_size(col, &key);
		self.stats.reads_checked += 1;
		// a commit taken off the queue by a process_commits call that failed is never logged
		let all_logged = self.counts().0 == 0 && !self.commit_lost_in_failed_step;
		let victim = self.deferral_victims.contains(&(col, k));
		let prop = if victim { "C11" } else { self.map_prop };
		if victim {
			self.victim_ctx = true;
		}
		self.check_key_inner(col, k, kind, key, expect, got, got_size, all_logged, prop);
		self.victim_ctx = false;
	}

	#[allow(clippy::too_many_arguments)]
	fn check_key_inner(
		&mut self,
		col: u8,
		k: usize,
		kind: ColKind,
		key: Vec<u8>,
		expect: Option<(Bytes, u32)>,
		got: parity_db::Result<Option<Vec<u8>>>,
		got_size: parity_db::Result<Option<u32>>,
		all_logged: bool,
		prop: &str,
	) {
		match got {
			Err(e) => self.violation(prop, "read-error", format!("get(col {col}, key#{k}) -> Err({e})")),
			Ok(got) => {
				match (&expect, &got) {
					(Some((v, _rc)), Some(g)) => {
						self.stats.nonempty_reads += 1;
						if **v != *g {
							self.violation(
								prop,
								"read-mismatch",
								format!(
									"get(col {col} [{}], key#{k}={}) returned {} bytes (fnv {:x}), model has {} bytes (fnv {:x})",
									kind.name(),
									short_hex(&key),
									g.len(),
									fnv64(0, g),
									v.len(),
									fnv64(0, v)
								),
							);
						}
					},
					(Some((v, _)), None) => {
						self.violation(
							prop,
							"read-missing",
							format!(
								"get(col {col} [{}], key#{k}={}) returned None, model has {} bytes",
								kind.name(),
								short_hex(&key),
								v.len()
							),
						);
					},
					(None, Some(g)) => {
						// Ref-counted: a key whose count reached zero may stay readable until
						// every accepted commit has been written to the log (C07 statement).
						if !(kind.is_rc() && !all_logged) {
							self.violation(
								prop,
								"read-extra",
								format!(
									"get(col {col} [{}], key#{k}={}) returned {} bytes, model has nothing",
									kind.name(),
									short_hex(&key),
									g.len()
								),
							);
						}
					},
					(None, None) => {},
				}
				match got_size {
					Err(e) => self.violation(prop, "read-error", format!("get_size -> Err({e})")),
					Ok(sz) => {
						let want = got.as_ref().map(|g| g.len() as u32);
						if sz != want {
							self.violation(
								prop,
								"size-mismatch",
								format!("get_size(col {col}, key#{k}) = {:?} but get returned {:?} bytes", sz, want),
							);
						}
					},
				}
			},
		}
	}

	fn check_recent(&mut self) {
		let mut keys: Vec<(u8, usize)> = Vec::new();
		for tx in self.recent.iter().rev().take(2) {
			keys.extend(tx.iter().cloned());
		}
		// plus a deterministic sample derived from the op index
		let mut r = Rng::new(0xC0FFEE ^ self.op_index as u64);
		for c in 0..self.ncols {
			let n = self.col_cfgs[c].keys.len();
			if n == 0 {
				continue
			}
			for _ in 0..3 {
				keys.push((c as u8, r.below(n as u64) as usize));
			}
		}
		keys.sort();
		keys.dedup();
		for (c, k) in keys {
			self.check_key(c, k);
		}
	}

	pub fn full_sweep(&mut self) {
		self.stats.full_sweeps += 1;
		for c in 0..self.ncols {
			if self.col_kinds[c].is_tree() {
				crate::treeops::check_all_trees(self, c as u8);
				continue
			}
			for k in 0..self.col_cfgs[c].keys.len() {
				self.check_key(c as u8, k);
			}
			if self.col_kinds[c].is_btree() {
				self.check_btree_full_iteration(c as u8);
			}
		}
	}

	fn check_btree_full_iteration(&mut self, col: u8) {
		self.victim_ctx = self.deferral_victims.iter().any(|(c, _)| *c == col);
		self.check_btree_full_iteration_inner(col);
		self.victim_ctx = false;
	}

	fn check_btree_full_iteration_inner(&mut self, col: u8) {
		let prop = if self.map_prop == "C04" { "C04" } else { self.map_prop };
		let expect: Vec<(Vec<u8>, Bytes)> = match &self.cur[col as usize] {
			ColModel::Kv(m) => m.map.iter().map(|(k, (v, _))| (k.clone(), v.clone())).collect(),
			_ => return,
		};
		let rc_relaxed = self.col_kinds[col as usize].is_rc() && self.counts().0 != 0;
		if rc_relaxed {
			return
		}
		let res: Result<Vec<(Vec<u8>, Vec<u8>)>, parity_db::Error> = (|| {
			let mut it = self.db().iter(col)?;
			it.seek_to_first()?;
			let mut out = Vec::new();
			while let Some(kv) = it.next()? {
				out.push(kv);
				if out.len() > expect.len() + 8 {
					break
				}
			}
			Ok(out)
		})();
		match res {
			Err(e) => self.violation(prop, "iter-error", format!("forward iteration failed: {e}")),
			Ok(got) => {
				let same = got.len() == expect.len() &&
					got.iter().zip(expect.iter()).all(|(g, e)| g.0 == e.0 && g.1 == **e.1);
				if !same {
					self.violation(
						prop,
						"iter-forward-mismatch",
						format!(
							"forward iteration of col {col} gave {} items [{}], model has {} [{}]",
							got.len(),
							got.iter().take(6).map(|g| short_hex(&g.0)).collect::<Vec<_>>().join(","),
							expect.len(),
							expect.iter().take(6).map(|g| short_hex(&g.0)).collect::<Vec<_>>().join(","),
						),
					);
				}
			},
		}
		let res: Result<Vec<(Vec<u8>, Vec<u8>)>, parity_db::Error> = (|| {
			let mut it = self.db().iter(col)?;
			it.seek_to_last()?;
			let mut out = Vec::new();
			while let Some(kv) = it.prev()? {
				out.push(kv);
				if out.len() > expect.len() + 8 {
					break
				}
			}
			Ok(out)
		})();
		match res {
			Err(e) => self.violation(prop, "iter-error", format!("backward iteration failed: {e}")),
			Ok(got) => {
				let same = got.len() == expect.len() &&
					got.iter().zip(expect.iter().rev()).all(|(g, e)| g.0 == e.0 && g.1 == **e.1);
				if !same {
					self.violation(
						prop,
						"iter-backward-mismatch",
						format!("backward iteration of col {col} gave {} items, model has {}", got.len(), expect.len()),
					);
				}
			},
		}
	}

	// -- iterator ops (C04) ---------------------------------------------------------------------

	fn iter_op(&mut self, col: u8, call: IterCall) {
		if !self.col_kinds[col as usize].is_btree() || self.db.is_none() {
			return
		}
		if self.col_kinds[col as usize].is_rc() && self.counts().0 != 0 {
			return
		}
		self.stats.iter_calls += 1;
		if self.iters[col as usize].is_none() {
			match self.db().iter(col) {
				Ok(it) => {
					// The iterator borrows the Db; it is always dropped before the handle is.
					let it: BIter = unsafe { std::mem::transmute(it) };
					self.iters[col as usize] = Some((it, IterPos::Start));
				},
				Err(e) => {
					self.violation("C04", "iter-error", format!("iter() failed: {e}"));
					return
				},
			}
		}
		let model: BTreeMap<Vec<u8>, Bytes> = match &self.cur[col as usize] {
			ColModel::Kv(m) => m.map.iter().map(|(k, (v, _))| (k.clone(), v.clone())).collect(),
			_ => return,
		};
		let keys = self.col_cfgs[col as usize].keys.clone();
		let (it, pos) = self.iters[col as usize].as_mut().unwrap();
		use std::ops::Bound::*;
		let mut err: Option<String> = None;
		match call {
			IterCall::SeekFirst => {
				if let Err(e) = it.seek_to_first() {
					err = Some(format!("seek_to_first: {e}"));
				}
				*pos = IterPos::Seeked(Vec::new());
			},
			IterCall::SeekLast => {
				if let Err(e) = it.seek_to_last() {
					err = Some(format!("seek_to_last: {e}"));
				}
				*pos = IterPos::End;
			},
			IterCall::Seek(k) => {
				let key = keys[k % keys.len().max(1)].clone();
				if let Err(e) = it.seek(&key) {
					err = Some(format!("seek: {e}"));
				}
				*pos = IterPos::Seeked(key);
			},
			IterCall::Next => {
				let expect: Option<(Vec<u8>, Bytes)> = match &*pos {
					IterPos::Start => model.iter().next().map(|(k, v)| (k.clone(), v.clone())),
					IterPos::End => None,
					IterPos::Seeked(k) =>
						model.range::<Vec<u8>, _>((Included(k), Unbounded)).next().map(|(k, v)| (k.clone(), v.clone())),
					IterPos::At(k) =>
						model.range::<Vec<u8>, _>((Excluded(k), Unbounded)).next().map(|(k, v)| (k.clone(), v.clone())),
				};
				match it.next() {
					Err(e) => err = Some(format!("next: {e}")),
					Ok(got) => {
						let ok = match (&got, &expect) {
							(None, None) => true,
							(Some(g), Some(e)) => g.0 == e.0 && g.1 == **e.1,
							_ => false,
						};
						if !ok {
							err = Some(format!(
								"next() from {:?} returned {:?}, model says {:?}",
								pos_dbg(pos),
								got.as_ref().map(|g| short_hex(&g.0)),
								expect.as_ref().map(|g| short_hex(&g.0))
							));
						}
						*pos = match got {
							Some((k, _)) => IterPos::At(k),
							None => IterPos::End,
						};
					},
				}
			},
			IterCall::Prev => {
				let expect: Option<(Vec<u8>, Bytes)> = match &*pos {
					IterPos::End => model.iter().next_back().map(|(k, v)| (k.clone(), v.clone())),
					IterPos::Start => None,
					IterPos::Seeked(k) =>
						model.range::<Vec<u8>, _>((Unbounded, Included(k))).next_back().map(|(k, v)| (k.clone(), v.clone())),
					IterPos::At(k) =>
						model.range::<Vec<u8>, _>((Unbounded, Excluded(k))).next_back().map(|(k, v)| (k.clone(), v.clone())),
				};
				match it.prev() {
					Err(e) => err = Some(format!("prev: {e}")),
					Ok(got) => {
						let ok = match (&got, &expect) {
							(None, None) => true,
							(Some(g), Some(e)) => g.0 == e.0 && g.1 == **e.1,
							_ => false,
						};
						if !ok {
							err = Some(format!(
								"prev() from {:?} returned {:?}, model says {:?}",
								pos_dbg(pos),
								got.as_ref().map(|g| short_hex(&g.0)),
								expect.as_ref().map(|g| short_hex(&g.0))
							));
						}
						*pos = match got {
							Some((k, _)) => IterPos::At(k),
							None => IterPos::Start,
						};
					},
				}
			},
		}
		if let Some(e) = err {
			self.violation("C04", "iter-step-mismatch", format!("col {col}: {e}"));
		}
	}

	// -- steps ----------------------------------------------------------------------------------

	/// Run one pipeline stage. Returns Err(text) if the stage function returned an error.
	fn run_stage(&mut self, s: Stage) -> Result<bool, String> {
		let track = matches!(s, Stage::ProcessCommits | Stage::ProcessReindex) && self.track_records;
		let (sizes_before, queued_before) = if track { (self.log_sizes(), self.counts().0) } else { (Vec::new(), 0) };
		let r = match s {
			Stage::ProcessCommits => {
				let q0 = self.counts().0;
				let r = self.db().verif_process_commits();
				if r.is_err() && self.counts().0 < q0 {
					self.commit_lost_in_failed_step = true;
				}
				if let Ok(true) = r {
					if q0 > 0 && self.counts().0 == q0 {
						// popped and re-queued: the commit was postponed (tree reader lock)
						self.deferral_happened = true;
					DEFERRAL_SEEN.store(true, std::sync::atomic::Ordering::SeqCst);
						self.stats.probe("commit_postponed");
					}
				}
				if track {
					self.note_appended_record(&sizes_before, queued_before, true);
				}
				r
			},
			Stage::ProcessReindex => {
				let r = self.db().verif_process_reindex();
				if track {
					self.note_appended_record(&sizes_before, queued_before, false);
				}
				r
			},
			Stage::Flush => {
				let logged = self.n_logged();
				let r = self.db().verif_flush_logs(0);
				if let Ok(true) = r {
					if self.cfg.sync_wal {
						self.n_synced = std::cmp::max(self.n_synced, logged);
					}
				}
				r
			},
			Stage::EnactOne | Stage::EnactAll => {
				// Harness constraint: single-threaded stepping must clean before the number of
				// consumed-but-uncleaned logs exceeds the limit, else enact waits for a worker
				// that does not exist.
				if self.counts().3 >= self.max_dirty() {
					self.stats.probe("enact_skipped_dirty_limit");
					return Ok(false)
				}
				if s == Stage::EnactOne {
					let r = self.db().verif_enact_one();
					if let Ok(true) = r {
						self.stats.probe("records_enacted");
						self.enacted_count += 1;
					}
					r
				} else {
					let mut any = false;
					loop {
						match self.db().verif_enact_one() {
							Ok(true) => {
								any = true;
								self.stats.probe("records_enacted");
								self.enacted_count += 1;
							},
							Ok(false) => break Ok(any),
							Err(e) => break Err(e),
						}
					}
				}
			},
			Stage::Clean => self.db().verif_clean_logs(),
		};
		r.map_err(|e| {
			let t = format!("{e}");
			crate::faultops::note_error_text(&t);
			t
		})
	}

	fn step(&mut self, s: Stage) {
		self.stats.steps += 1;
		match self.run_stage(s) {
			Ok(_) => {},
			Err(e) => {
				if !self.bg_err_expected {
					let p = self.map_prop;
					self.violation(p, "stage-error", format!("{} returned Err({e}) without any injected fault", s.name()));
				}
			},
		}
	}

	pub fn drain(&mut self) {
		let mut guard = 0;
		let mut stalled = 0usize;
		let mut deferred_only = false;
		loop {
			guard += 1;
			if guard > 4000 {
				// never reached on the unchanged tree; whatever it is, this is not a drained point
				self.violation("C15", "drain-stuck", "pipeline did not drain in 4000 stage steps".into());
				return
			}
			let c = self.counts();
			if c.0 > 0 && !deferred_only {
				self.step(Stage::ProcessCommits);
				if crate::treeops::any_locked(self) {
					// a commit that dereferences a locked tree is re-queued, not logged
					stalled = if self.counts().0 >= c.0 { stalled + 1 } else { 0 };
					if stalled > c.0 + 1 {
						deferred_only = true;
					}
				}
				continue
			}
			match self.run_stage(Stage::ProcessReindex) {
				Ok(true) => continue,
				Ok(false) => {},
				Err(e) => {
					let p = self.map_prop;
					self.violation(p, "stage-error", format!("process_reindex: {e}"));
					break
				},
			}
			let _ = self.run_stage(Stage::Flush);
			if self.counts().3 >= self.max_dirty() {
				self.step(Stage::Clean);
				if self.counts().3 >= self.max_dirty() && !crate::treeops::any_locked(self) {
					// Without `sync_data` reclamation keeps 16 consumed logs, and the next applied
					// file would make the caller wait for a cleanup worker that does not exist in
					// stage mode: get past it the way a client can, by a clean restart (which
					// applies what it can and leaves the rest to replay).
					self.stats.probe("drain_by_restart_at_dirty_limit");
					self.restart();
					return
				}
			}
			let enacted = matches!(self.run_stage(Stage::EnactAll), Ok(true));
			let c = self.counts();
			// reindex may have become due after enacting
			if enacted || c.2 || (c.0 > 0 && !deferred_only) {
				continue
			}
			if c.6 != 0 && c.6 <= c.5 {
				continue
			}
			self.step(Stage::Clean);
			if self.counts().3 > 0 && self.cfg.sync_data {
				continue
			}
			break
		}
		if deferred_only {
			// not a drained point: deferred commits are still queued
			self.full_sweep();
			return
		}
		self.stats.drained_points += 1;
		self.at_drained_point();
	}

	fn at_drained_point(&mut self) {
		self.full_sweep();
		for c in 0..self.ncols {
			if self.col_kinds[c].is_tree() {
				crate::treeops::check_entry_count(self, c as u8);
			}
		}
		self.check_value_iteration();
		self.structural_check();
	}

	/// Hash columns: value iteration reports exactly the live values with their counts.
	fn check_value_iteration(&mut self) {
		for c in 0..self.ncols {
			let kind = self.col_kinds[c];
			if !kind.is_hash_kv() {
				continue
			}
			if self.deferral_victims.iter().any(|(vc, _)| *vc as usize == c) {
				continue
			}
			let mut expect: Vec<(u64, usize, u32)> = match &self.cur[c] {
				ColModel::Kv(m) => m
					.map
					.values()
					.map(|(v, rc)| (fnv64(0, v), v.len(), if kind.is_rc() { *rc } else { 0 }))
					.collect(),
				_ => continue,
			};
			let mut got: Vec<(u64, usize, u32)> = Vec::new();
			let r = self.db().iter_column_while(c as u8, |st| {
				got.push((fnv64(0, &st.value), st.value.len(), if kind.is_rc() { st.rc } else { 0 }));
				true
			});
			if let Err(e) = r {
				self.violation("C14", "value-iteration-error", format!("iter_column_while(col {c}): {e}"));
				continue
			}
			expect.sort();
			got.sort();
			if expect != got {
				let prop = if kind.is_rc() && self.map_prop == "C07" { "C07" } else { "C14" };
				self.violation(
					prop,
					"value-iteration-mismatch",
					format!(
						"col {c} [{}]: value iteration yields {} values, model has {} live values (first diff: got {:?} want {:?})",
						kind.name(),
						got.len(),
						expect.len(),
						got.iter().find(|g| !expect.contains(g)),
						expect.iter().find(|g| !got.contains(g)),
					),
				);
			}
		}
	}

	fn structural_check(&mut self) {
		if crate::treeops::any_locked(self) || !self.deferral_victims.is_empty() {
			return
		}
		self.stats.structural_checks += 1;
		let live = self.live.clone();
		let findings = simdisk::muted(|| structural::check_dir(&live, self));
		for f in findings {
			self.claim_ctx = self.claimed_leak.iter().any(|c| f.1.starts_with(&format!("col {c} ")) || f.1.starts_with(&format!("col {c}:")));
			let prop = if f.0 == "root-count" { "C10" } else { "C14" };
			self.violation(prop, &f.0, f.1);
			self.claim_ctx = false;
		}
	}

	// -- restart / crash ------------------------------------------------------------------------

	fn restart(&mut self) {
		self.stats.restarts += 1;
		self.restarts += 1;
		self.close_db();
		self.n_synced = self.n();
		if self.open_db(false) {
			self.recent.clear();
			// after a clean reopen everything is applied: drained point
			self.stats.drained_points += 1;
			self.at_drained_point();
		}
	}

	/// Observable logical content of the open database restricted to the key universes.
	fn observe(&mut self) -> Result<Vec<Observed>, String> {
		let mut out = Vec::new();
		for c in 0..self.ncols {
			let kind = self.col_kinds[c];
			if kind.is_tree() {
				out.push(Observed::Tree(crate::treeops::observe(self, c as u8)?));
				continue
			}
			let mut m = BTreeMap::new();
			for (i, k) in self.col_cfgs[c].keys.iter().enumerate() {
				match self.db().get(c as u8, k) {
					Ok(Some(v)) => {
						m.insert(i, v);
					},
					Ok(None) => {},
					Err(e) => return Err(format!("get(col {c}, key#{i}) failed after recovery: {e}")),
				}
			}
			let mut extra = None;
			if kind.is_hash_kv() {
				let mut vals: Vec<(u64, usize, u32)> = Vec::new();
				let r = self.db().iter_column_while(c as u8, |st| {
					vals.push((fnv64(0, &st.value), st.value.len(), if kind.is_rc() { st.rc } else { 0 }));
					true
				});
				if let Err(e) = r {
					return Err(format!("iter_column_while(col {c}) failed after recovery: {e}"))
				}
				vals.sort();
				extra = Some(vals);
			}
			let mut order = None;
			if kind.is_btree() {
				let r: Result<Vec<Vec<u8>>, parity_db::Error> = (|| {
					let mut it = self.db().iter(c as u8)?;
					it.seek_to_first()?;
					let mut ks = Vec::new();
					while let Some((k, _)) = it.next()? {
						ks.push(k);
						if ks.len() > 100_000 {
							break
						}
					}
					Ok(ks)
				})();
				match r {
					Ok(ks) => order = Some(ks),
					Err(e) => return Err(format!("btree iteration failed after recovery: {e}")),
				}
			}
			out.push(Observed::Kv { vals: m, value_iter: extra, order });
		}
		Ok(out)
	}

	fn matches_state(&self, obs: &[Observed], s: &State) -> Result<(), String> {
		for c in 0..self.ncols {
			let kind = self.col_kinds[c];
			match (&obs[c], &s[c]) {
				(Observed::Kv { vals, value_iter, order }, ColModel::Kv(m)) => {
					for (i, k) in self.col_cfgs[c].keys.iter().enumerate() {
						let e = m.map.get(k).map(|x| &x.0);
						let g = vals.get(&i);
						match (e, g) {
							(None, None) => {},
							(Some(e), Some(g)) if **e == *g => {},
							_ => {
								return Err(format!(
									"col {c} key#{i}: db {:?} bytes, state {:?} bytes",
									g.map(|x| x.len()),
									e.map(|x| x.len())
								))
							},
						}
					}
					if let Some(vi) = value_iter {
						let mut exp: Vec<(u64, usize, u32)> = m
							.map
							.values()
							.map(|(v, rc)| (fnv64(0, v), v.len(), if kind.is_rc() { *rc } else { 0 }))
							.collect();
						exp.sort();
						if exp != *vi {
							return Err(format!(
								"col {c}: value iteration has {} values, state has {}",
								vi.len(),
								exp.len()
							))
						}
					}
					if let Some(ord) = order {
						let exp: Vec<&Vec<u8>> = m.map.keys().collect();
						if exp.len() != ord.len() || exp.iter().zip(ord.iter()).any(|(a, b)| **a != *b) {
							return Err(format!("col {c}: btree iteration has {} keys, state has {}", ord.len(), exp.len()))
						}
					}
				},
				(Observed::Tree(t), ColModel::Tree(m)) => {
					crate::treeops::matches(self, c as u8, t, m)?;
				},
				_ => return Err("column kind mismatch".into()),
			}
		}
		Ok(())
	}

	/// Open the image at `dir`, read everything, find the prefix it corresponds to.
	/// Returns Some(j) when the handle was left open on that image.
	fn verify_image(&mut self, dir: &str, lo: usize, hi: usize, ctx: &str, power: bool) -> Option<usize> {
		self.stats.images_checked += 1;
		self.live = dir.to_string();
		simdisk::with(|d| d.set_root(dir));
		// clause ownership: in the I/O-error scenario the recovery clauses belong to C16
		let crash_prop = if self.cfg.scenario == "ioerr" { "C16" } else if power { "C12" } else { "C02" };
		let o = self.options_for(dir);
		let db = match Db::open(&o) {
			Ok(db) => db,
			Err(e) => {
				self.violation(crash_prop, "recovery-open-failed", format!("{ctx}: open of crash image failed: {e}"));
				return None
			},
		};
		self.db = Some(db);
		let obs = match self.observe() {
			Ok(o) => o,
			Err(e) => {
				self.violation(crash_prop, "recovery-read-failed", format!("{ctx}: {e}"));
				return None
			},
		};
		let mut found = None;
		let top = std::cmp::min(hi, self.n());
		let mut first_err = String::new();
		for j in (0..=top).rev() {
			match self.matches_state(&obs, &self.hist[j].clone()) {
				Ok(()) => {
					found = Some(j);
					break
				},
				Err(e) =>
					if j == top {
						first_err = e
					},
			}
		}
		match found {
			None => {
				// diagnostic: does it match a later state?
				let mut later = None;
				for j in top + 1..=self.n() {
					if self.matches_state(&obs, &self.hist[j].clone()).is_ok() {
						later = Some(j);
					}
				}
				self.abandon_db();
				self.violation(
					crash_prop,
					"not-a-prefix",
					format!(
						"{ctx}: recovered state equals no prefix S_0..S_{top} of the {} committed transactions (vs S_{top}: {first_err}){}",
						self.n(),
						later.map(|j| format!("; it equals S_{j} which is beyond the logged bound")).unwrap_or_default()
					),
				);
				None
			},
			Some(j) => {
				if j < lo {
					let p = if self.cfg.scenario == "ioerr" { "C16" } else if power { "C12" } else { "C03" };
					self.violation(
						p,
						"synced-commit-lost",
						format!("{ctx}: recovered state is S_{j} but commits up to {lo} had their log record synced before the crash"),
					);
				}
				if j < top {
					self.stats.recovered_j_lt_u += 1;
				}
				Some(j)
			},
		}
	}

	fn adopt(&mut self, j: usize) {
		// commits lost by this crash that had claimed slots in a tree column at commit time
		for (i, tx) in self.tx_log.iter().enumerate() {
			if i + 1 > j {
				for (c, op) in tx {
					if let TxOp::InsertTree(_, s) = op {
						if s.children.iter().any(|c| matches!(c, ChildSpec::New(_))) {
							self.claimed_leak.insert(*c);
						}
					}
				}
			}
		}
		self.tx_log.truncate(j);
		self.commits_at_open = j;
		self.hist.truncate(j + 1);
		self.cur = (*self.hist[j]).clone();
		self.n_synced = j;
		self.recent.clear();
		self.crashed_once = true;
		crate::treeops::after_adopt(self);
	}

	fn crash(&mut self, inner: &Op, plan: &CrashPlan) {
		self.stats.crash_ops += 1;
		if self.db.is_none() {
			return
		}
		let power = matches!(plan.kind, CrashKind::Power { .. });
		let kind = match &plan.kind {
			CrashKind::Proc => SnapKind::Proc,
			CrashKind::Power { p_num, p_den } => SnapKind::Power { p_num: *p_num, p_den: *p_den },
		};
		// bounds at step start
		let lo = self.n_synced;
		let n_before = self.n();
		let logged_before = self.n_logged();
		let queued = self.counts().0;
		let snap_plan =
			SnapPlan { kind: kind.clone(), stride: plan.stride.max(1), phase: plan.phase, max: plan.max.max(1), before: None };
		simdisk::with(|d| {
			d.snapshots.clear();
			d.snap_plan = Some(snap_plan);
			d.begin_step();
		});
		// run the inner op without oracle checks (they run on the recovered images)
		let mut reopened_inner = false;
		match inner {
			Op::Step(s) => {
				let _ = self.run_stage(*s);
			},
			Op::Commit(tx) => {
				self.commit(tx, false);
			},
			Op::Restart => {
				self.close_db();
				reopened_inner = true;
			},
			Op::Drain => {
				// a bounded drain without checks
				for _ in 0..64 {
					let c = self.counts();
					if c.0 > 0 {
						let _ = self.run_stage(Stage::ProcessCommits);
					} else {
						break
					}
				}
				let _ = self.run_stage(Stage::ProcessReindex);
				let _ = self.run_stage(Stage::Flush);
				let _ = self.run_stage(Stage::EnactAll);
				let _ = self.run_stage(Stage::Clean);
			},
			_ => {},
		}
		let hi = match inner {
			Op::Step(Stage::ProcessCommits) => logged_before + std::cmp::min(queued, 1),
			Op::Restart | Op::Drain => n_before,
			Op::Commit(_) => logged_before,
			_ => logged_before,
		};
		let hi = std::cmp::min(hi, self.n());
		if plan.boundary && !reopened_inner {
			simdisk::with(|d| {
				let k = kind.clone();
				d.take_snapshot(&k, simdisk::Ev::Close, "<boundary>", false, u32::MAX);
			});
		}
		let snaps = simdisk::with(|d| {
			d.end_step();
			std::mem::take(&mut d.snapshots)
		});
		// If the inner op was a commit that is not part of any image, it is simply lost with
		// the crash; history is truncated on adoption anyway.
		if !reopened_inner {
			self.abandon_db();
		}
		if snaps.is_empty() {
			// nothing happened in this step: continue on the live directory
			simdisk::with(|d| d.set_root(&self.live.clone()));
			if self.open_db(false) {
				// equivalent to a crash at the boundary with exact content
				if let Ok(obs) = self.observe() {
					let mut found = None;
					for j in (0..=std::cmp::min(hi.max(n_before.min(hi)), self.n())).rev() {
						if self.matches_state(&obs, &self.hist[j].clone()).is_ok() {
							found = Some(j);
							break
						}
					}
					if let Some(j) = found {
						self.adopt(j);
					} else {
						self.violation("C02", "not-a-prefix", "reopen of the live directory after an eventless step matched no prefix".into());
					}
				}
			}
			return
		}
		let adopt_idx = (plan.adopt as usize) % snaps.len();
		let old_live = self.live.clone();
		let mut adopted: Option<(usize, String)> = None;
		for (i, s) in snaps.iter().enumerate() {
			let mid = s.step_event_index != u32::MAX;
			if mid {
				self.stats.images_midstep += 1;
			}
			*self
				.stats
				.crash_points
				.entry(format!(
					"{}:{}:{}",
					inner.kind_name(),
					s.ev.name(),
					if !mid { "boundary" } else if s.before { "before" } else { "after" }
				))
				.or_insert(0) += 1;
			if s.dirty_pages_total > s.dirty_pages_kept {
				self.stats.power_images_with_dropped_pages += 1;
			}
			if s.log_tail_cut {
				self.stats.power_images_with_cut_tail += 1;
			}
			let ctx = format!(
				"{} crash image {}/{} taken {} event #{} ({} {}) of step '{}'",
				if power { "power-loss" } else { "process" },
				i + 1,
				snaps.len(),
				if s.before { "before" } else { "after" },
				s.step_event_index,
				s.ev.name(),
				s.file,
				inner.kind_name()
			);
			// A flush step that completed its sync raises the lower bound for later images.
			let lo_i = lo;
			let keep = i == adopt_idx;
			let dir = s.dir.clone();
			if keep && plan.recrash > 0 {
				// crash again during recovery of this image
				adopted = self.recrash(&dir, lo_i, hi, &kind, plan.recrash, power);
				continue
			}
			let r = self.verify_image(&dir, lo_i, hi, &ctx, power);
			if keep {
				if let Some(j) = r {
					adopted = Some((j, dir.clone()));
					continue
				}
			}
			// not kept: close and delete
			self.abandon_db();
			simdisk::muted(|| {
				let _ = std::fs::remove_dir_all(&dir);
			});
		}
		simdisk::muted(|| {
			let _ = std::fs::remove_dir_all(&old_live);
		});
		match adopted {
			Some((j, dir)) => {
				// self.live / self.db currently point at the adopted image only if it was the
				// last one verified; reopen if needed.
				if self.live != dir || self.db.is_none() {
					self.abandon_db();
					self.live = dir.clone();
					simdisk::with(|d| d.set_root(&dir));
					if !self.open_db(false) {
						return
					}
				}
				self.adopt(j);
				self.stats.drained_points += 1;
				self.full_sweep();
				self.structural_check();
			},
			None => {
				// The adopted image failed verification: the run cannot continue meaningfully.
				self.abandon_db();
			},
		}
	}

	/// Recovery of `dir` is itself interrupted: images are taken during Db::open.
	fn recrash(&mut self, dir: &str, lo: usize, hi: usize, kind: &SnapKind, depth: u8, power: bool) -> Option<(usize, String)> {
		self.live = dir.to_string();
		simdisk::with(|d| {
			d.set_root(dir);
			d.snapshots.clear();
			d.snap_plan = Some(SnapPlan { kind: kind.clone(), stride: 3, phase: depth as u32, max: 12, before: None });
			d.begin_step();
		});
		let o = self.options_for(dir);
		let first = Db::open(&o);
		let snaps = simdisk::with(|d| {
			d.end_step();
			std::mem::take(&mut d.snapshots)
		});
		match first {
			Ok(db) => {
				self.db = Some(db);
			},
			Err(e) => {
				self.violation(if power { "C12" } else { "C02" }, "recovery-open-failed", format!("open of crash image failed: {e}"));
			},
		}
		self.abandon_db();
		simdisk::muted(|| {
			let _ = std::fs::remove_dir_all(dir);
		});
		let mut adopted = None;
		let n = snaps.len();
		for (i, s) in snaps.iter().enumerate() {
			self.stats.images_in_recovery += 1;
			let ctx = format!(
				"image {}/{} taken during recovery ({} event #{} {} {})",
				i + 1,
				n,
				if s.before { "before" } else { "after" },
				s.step_event_index,
				s.ev.name(),
				s.file
			);
			let r = self.verify_image(&s.dir.clone(), lo, hi, &ctx, power);
			if i + 1 == n {
				if let Some(j) = r {
					adopted = Some((j, s.dir.clone()));
					continue
				}
			}
			self.abandon_db();
			let d = s.dir.clone();
			simdisk::muted(|| {
				let _ = std::fs::remove_dir_all(&d);
			});
		}
		if snaps.is_empty() {
			// recovery produced no crash point (nothing to replay): the image was verified by
			// the plain open above only if it succeeded; re-verify a fresh copy is not possible
			// any more, so give up on this run's continuation.
			return None
		}
		adopted
	}

	// -- commit ---------------------------------------------------------------------------------

	/// Drop tree operations that are not applicable in the current state (so that minimised or
	/// hand-edited op lists stay valid commits): insert under a live key, reference to a node
	/// that no longer exists, dereference of a missing tree...
	fn sanitise(&self, tx: &[(u8, TxOp)]) -> Vec<(u8, TxOp)> {
		let mut out = Vec::new();
		let mut touched: Vec<std::collections::HashSet<usize>> = self.col_kinds.iter().map(|_| Default::default()).collect();
		let mut delta: Vec<std::collections::HashMap<usize, i64>> = self.col_kinds.iter().map(|_| Default::default()).collect();
		for (c, op) in tx {
			if (*c as usize) >= self.col_kinds.len() {
				continue
			}
			let kind = self.col_kinds[*c as usize];
			match op {
				TxOp::InsertTree(k, _) | TxOp::RefTree(k) | TxOp::DerefTree(k) => {
					if *k >= self.col_cfgs[*c as usize].keys.len() {
						continue
					}
					if kind.is_tree() && crate::treeops::applicable(self, *c, op, &touched[*c as usize], &delta[*c as usize]) {
						crate::treeops::note_accepted(self, *c, op, &mut touched[*c as usize], &mut delta[*c as usize]);
						out.push((*c, op.clone()));
					}
				},
				TxOp::Set(k, _) | TxOp::Del(k) | TxOp::Ref(k) => {
					if !kind.is_tree() && *k < self.col_cfgs[*c as usize].keys.len() {
						if matches!(op, TxOp::Ref(_)) && !kind.is_rc() {
							continue
						}
						if matches!(op, TxOp::Set(..)) && kind.is_preimage() && self.col_cfgs[*c as usize].preimage_vals.len() <= *k {
							// column converted to preimage by a migration: its key->value function is unknown here
							continue
						}
						if let (TxOp::Set(k, _), true) = (op, kind.is_preimage()) {
							// the preimage contract: the value is determined by the key
							out.push((*c, TxOp::Set(*k, self.col_cfgs[*c as usize].preimage_vals[*k])));
							continue
						}
						out.push((*c, op.clone()));
					}
				},
				TxOp::RawRef(_) => {},
			}
		}
		out
	}

	fn commit(&mut self, tx: &[(u8, TxOp)], check: bool) {
		self.stats.commits += 1;
		let tx = &self.sanitise(tx)[..];
		let dbtx = self.to_db_tx(tx);
		let defers = tx.iter().any(|(c, op)| match op {
			TxOp::DerefTree(k) => self.tree_rt.get(*c as usize).map_or(false, |r| r.locks.contains_key(k)),
			_ => false,
		});
		if !self.deferral_victims.is_empty() {
			fn roots(s: &TreeSpec, out: &mut Vec<usize>) {
				for c in &s.children {
					match c {
						ChildSpec::New(n) => roots(n, out),
						ChildSpec::Existing { root, .. } => out.push(*root),
					}
				}
			}
			for (c, op) in tx {
				let mut named: Vec<usize> = Vec::new();
				match op {
					TxOp::Set(k, _) | TxOp::Del(k) | TxOp::Ref(k) | TxOp::RefTree(k) | TxOp::DerefTree(k) => named.push(*k),
					TxOp::InsertTree(k, spec) => {
						named.push(*k);
						roots(spec, &mut named);
					},
					_ => {},
				}
				if named.iter().any(|k| self.deferral_victims.contains(&(*c, *k))) {
					self.victim_dependency = true;
					self.stats.probe("commit_depends_on_postponed_commit");
				}
			}
		}
		if defers {
			// keys written by a transaction that will be postponed behind later ones
			for (c, op) in tx {
				match op {
					TxOp::Set(k, _) | TxOp::Del(k) | TxOp::Ref(k) | TxOp::InsertTree(k, _) | TxOp::RefTree(k) | TxOp::DerefTree(k) => {
						self.deferral_victims.insert((*c, *k));
						DEFERRAL_SEEN.store(true, std::sync::atomic::Ordering::SeqCst);
					},
					_ => {},
				}
			}
			self.stats.probe("commit_postponed_with_other_writes");
		}
		match self.db().commit_changes(dbtx) {
			Ok(()) => {
				self.apply_to_model(tx);
				self.hist.push(Arc::new(self.cur.clone()));
				self.tx_log.push(tx.to_vec());
				let touched: Vec<(u8, usize)> = tx
					.iter()
					.filter_map(|(c, op)| match op {
						TxOp::Set(k, _) | TxOp::Del(k) | TxOp::Ref(k) => Some((*c, *k)),
						_ => None,
					})
					.collect();
				self.recent.push(touched);
				let all: Vec<(u8, usize)> = tx
					.iter()
					.filter_map(|(c, op)| match op {
						TxOp::Set(k, _) | TxOp::Del(k) | TxOp::Ref(k) | TxOp::InsertTree(k, _) | TxOp::RefTree(k) | TxOp::DerefTree(k) => Some((*c, *k)),
						_ => None,
					})
					.collect();
				let derefs: Vec<(u8, usize)> =
					tx.iter().filter_map(|(c, op)| if let TxOp::DerefTree(k) = op { Some((*c, *k)) } else { None }).collect();
				self.commit_keys.push((all, derefs));
				crate::treeops::after_commit(self, tx);
			},
			Err(e) => {
				if check && !self.bg_err_expected {
					let p = self.map_prop;
					self.violation(p, "commit-rejected", format!("valid commit returned Err({e})"));
				}
			},
		}
	}

	// -- rejected transactions (C08) --------------------------------------------------------------

	fn entry_counts(&self) -> Vec<Option<u64>> {
		(0..self.ncols)
			.map(|c| {
				if self.col_kinds[c].is_btree() {
					None
				} else {
					self.db().get_num_column_value_entries(c as u8).ok()
				}
			})
			.collect()
	}

	/// Index of the first operation of `tx` that the database must refuse, judged against what
	/// is visible in the database right now.
	fn first_invalid(&self, tx: &[(u8, TxOp)]) -> Option<usize> {
		fn oversize(s: &TreeSpec) -> bool {
			s.children.len() > 255 || s.children.iter().any(|c| matches!(c, ChildSpec::New(n) if oversize(n)))
		}
		for (i, (c, op)) in tx.iter().enumerate() {
			if (*c as usize) >= self.col_kinds.len() {
				continue
			}
			let kind = self.col_kinds[*c as usize];
			let bad = match (kind, op) {
				(ColKind::Tree { .. }, TxOp::Set(..) | TxOp::Del(_) | TxOp::Ref(_) | TxOp::RawRef(_)) => true,
				(ColKind::Tree { append_only, rc_roots, .. }, TxOp::RefTree(_)) => !append_only && !rc_roots,
				(ColKind::Tree { append_only, .. }, TxOp::DerefTree(k)) => {
					let key = &self.col_cfgs[*c as usize].keys[*k];
					append_only || matches!(self.db().get_tree(*c, key), Ok(None))
				},
				(ColKind::Tree { .. }, TxOp::InsertTree(_, s)) => oversize(s),
				(_, TxOp::InsertTree(..) | TxOp::RefTree(_) | TxOp::DerefTree(_)) => true,
				(k, TxOp::Ref(_) | TxOp::RawRef(_)) => !k.is_rc(),
				_ => false,
			};
			if bad {
				return Some(i)
			}
		}
		None
	}

	fn bad_commit(&mut self, tx: &[(u8, TxOp)], bg_err: bool) {
		self.stats.probe("bad_commits");
		if crate::treeops::any_locked(self) {
			return
		}
		let first_bad = self.first_invalid(tx);
		if first_bad.is_none() && !bg_err {
			// nothing invalid left in it (e.g. after minimisation): an ordinary commit
			self.commit(tx, true);
			return
		}
		// Side effects taken while assembling tree operations that precede the invalid one
		// (claimed slots, queued-dereference counters) are not rolled back: known finding.
		let upto = if bg_err { tx.len() } else { first_bad.unwrap_or(0) };
		let assembly_side_effect =
			tx[..upto].iter().any(|(c, op)| {
				self.col_kinds.get(*c as usize).map_or(false, |k| k.is_tree()) &&
					match op {
						TxOp::InsertTree(_, s) => s.children.iter().any(|c| matches!(c, ChildSpec::New(_))),
						TxOp::DerefTree(_) => true,
						_ => false,
					}
			});
		if assembly_side_effect {
			self.stats.probe("reject_after_tree_assembly_side_effect");
		}
		let before = self.entry_counts();
		if bg_err {
			self.db().verif_store_err(parity_db::Error::InvalidInput("injected background error".into()));
			// shutdown in error state reclaims logs without flushing tables: outside C12's claim
			simdisk::with(|d| d.monitor = false);
		}
		let dbtx = if bg_err { let t = self.sanitise(tx); self.to_db_tx(&t) } else { self.to_db_tx(tx) };
		fn oversize(s: &TreeSpec) -> bool {
			s.children.len() > 255 || s.children.iter().any(|c| matches!(c, ChildSpec::New(n) if oversize(n)))
		}
		let has_oversize = tx.iter().any(|(c, op)| {
			self.col_kinds.get(*c as usize).map_or(false, |k| k.is_tree()) && matches!(op, TxOp::InsertTree(_, s) if oversize(s))
		});
		let r = self.db().commit_changes(dbtx);
		match r {
			Ok(()) => {
				if has_oversize {
					self.violation("C10", "unrepresentable-accepted", "InsertTree with a node fan-out above 255 was accepted instead of being rejected".into());
				} else {
					self.violation("C08", "invalid-commit-accepted", format!("a transaction with an invalid operation{} was accepted", if bg_err { " (database in background-error state)" } else { "" }));
				}
				return
			},
			Err(_) => {},
		}
		// nothing of it may be visible: the model is unchanged
		self.reject_ctx = true;
		self.full_sweep();
		self.reject_ctx = false;
		let after = self.entry_counts();
		if assembly_side_effect {
			self.leak_expected = true;
		}
		for c in 0..self.ncols {
			if let (Some(b), Some(a)) = (before[c], after[c]) {
				if a != b {
					// an unrepresentable insertion with nothing before it that takes slots: the
					// rejection itself must not consume storage (C10)
					let (p, class) = if has_oversize && !assembly_side_effect && !bg_err {
						("C10", "unrepresentable-left-entries")
					} else {
						("C08", "entries-changed")
					};
					self.violation(
						p,
						class,
						format!("col {c} [{}]: value entry count went from {b} to {a} across a rejected commit", self.col_kinds[c].name()),
					);
				}
			}
		}
		if bg_err {
			// The handle is now unusable for writing: close it and reopen; what was synced must
			// survive (C16), what was only queued may be lost.
			let lo = self.n_synced;
			let hi = self.n_logged();
			self.close_db();
			let dir = self.live.clone();
			self.stats.probe("bg_err_reopen");
			if let Some(j) = self.verify_image(&dir, lo, hi, "reopen after a stored background error", false) {
				self.adopt(j);
			}
		}
	}

	// -- main entry -----------------------------------------------------------------------------

	pub fn exec_op(&mut self, i: usize, op: &Op) {
		self.op_index = i;
		self.stats.ops += 1;
		if self.db.is_none() {
			return
		}
		match op {
			Op::Commit(tx) => self.commit(tx, true),
			Op::BadCommit { tx, bg_err } => self.bad_commit(tx, *bg_err),
			Op::Step(s) => {
				simdisk::with(|d| d.begin_step());
				self.step(*s);
				simdisk::with(|d| d.end_step());
			},
			Op::Restart => self.restart(),
			Op::Drain => self.drain(),
			Op::Crash { inner, plan } => self.crash(inner, plan),
			Op::Iter(c, call) => self.iter_op(*c, *call),
			Op::IoErr { inner, after, errno, tryio, space_only } => crate::faultops::ioerr(self, inner, *after, *errno, *tryio, *space_only),
			Op::StashLogs => crate::faultops::stash_logs(self),
			Op::LogFuzz { muts, adopt } => crate::faultops::logfuzz(self, muts, *adopt),
			Op::LockTree(c, k) => crate::treeops::lock_tree(self, *c, *k),
			Op::UnlockTree(c, k) => crate::treeops::unlock_tree(self, *c, *k),
			Op::TreeHandle(c, k) => crate::treeops::tree_handle(self, *c, *k),
			Op::Admin(a, pending) => crate::adminops::admin(self, a, *pending),
			Op::Migrate { dest, overwrite, force, pending } => crate::adminops::migrate(self, dest, *overwrite, force, *pending),
		}
		if self.db.is_none() {
			return
		}
		let tag = match op {
			Op::Commit(_) => 1,
			Op::Step(s) => 2 + *s as u64,
			_ => 0,
		};
		self.record_stage_vector(tag);
		self.check_recent();
		crate::treeops::check_locked(self);
		if i % 8 == 7 {
			self.full_sweep();
		}
		// monitor violations (C12 ordering clauses)
		let mv = simdisk::with(|d| std::mem::take(&mut d.monitor_violations));
		for m in mv {
			self.violation("C12", "ordering", format!("{}: {} (event seq {})", m.clause, m.detail, m.seq));
		}
	}

	pub fn finish(&mut self) {
		if self.db.is_some() && self.viol.is_empty() {
			self.op_index += 1;
			crate::treeops::release_all(self);
			self.full_sweep();
			self.drain();
			// final clean restart: everything must persist (C03)
			let before = self.viol.len();
			self.restart();
			if self.viol.len() > before && self.map_prop != "C03" {
				// keep attribution of reopen mismatches to the scenario's property
			}
		}
		crate::treeops::release_all(self);
		self.close_db();
	}

	// accessors for sibling modules
	pub fn set_bg_err_expected(&mut self, v: bool) {
		self.bg_err_expected = v;
	}
	pub fn push_violation(&mut self, prop: &str, class: &str, detail: String) {
		self.violation(prop, class, detail)
	}
	pub fn take_db(&mut self) -> Option<Db> {
		self.drop_iters();
		self.db.take()
	}
	pub fn put_db(&mut self, db: Db) {
		self.db = Some(db);
	}
	pub fn has_db(&self) -> bool {
		self.db.is_some()
	}
	pub fn reopen(&mut self) -> bool {
		self.open_db(false)
	}
	pub fn abandon(&mut self) {
		self.abandon_db()
	}
	pub fn close(&mut self) {
		self.close_db()
	}
	pub fn stage(&mut self, s: Stage) -> Result<bool, String> {
		self.run_stage(s)
	}
	pub fn do_commit(&mut self, tx: &[(u8, TxOp)], check: bool) {
		self.commit(tx, check)
	}
	pub fn pipeline_counts(&self) -> (usize, usize, bool, usize, i64, u64, u64) {
		self.counts()
	}
	pub fn logged(&self) -> usize {
		self.n_logged()
	}
	pub fn verify_and_adopt(&mut self, dir: &str, lo: usize, hi: usize, ctx: &str, power: bool) -> Option<usize> {
		let r = self.verify_image(dir, lo, hi, ctx, power);
		if let Some(j) = r {
			self.adopt(j);
		}
		r
	}
	pub fn observe_all(&mut self) -> Result<Vec<Observed>, String> {
		self.observe()
	}
	pub fn state_matches(&self, obs: &[Observed], s: &State) -> Result<(), String> {
		self.matches_state(obs, s)
	}
	pub fn adopt_state(&mut self, j: usize) {
		self.adopt(j)
	}
	pub fn next_dir(&mut self, tag: &str) -> String {
		self.dir_counter += 1;
		format!("{}/{}{:04}", self.base, tag, self.dir_counter)
	}
	pub fn stashed(&mut self) -> &mut Vec<String> {
		&mut self.stashed_logs
	}
	pub fn entries_base(&mut self) -> &mut Vec<Option<u64>> {
		&mut self.entries_base
	}
	pub fn sweep(&mut self) {
		self.full_sweep()
	}
	pub fn drained_checks(&mut self) {
		self.at_drained_point()
	}
	/// After the column set changed: per-column runtime vectors follow.
	pub fn resize_cols(&mut self) {
		self.iters = self.col_kinds.iter().map(|_| None).collect();
		self.tree_rt.clear();
	}
	/// Forget history before the current state (used after administrative changes).
	pub fn collapse_history(&mut self) {
		let last = self.hist[self.hist.len() - 1].clone();
		self.hist = vec![last];
		self.tx_log.clear();
		self.n_synced = 0;
		self.commits_at_open = 0;
		self.commit_records.clear();
	}
	/// Id of the last record the tables hold (0: none since the last open).
	pub fn last_enacted_id(&self) -> u64 {
		if self.enacted_count == 0 {
			0
		} else {
			self.logged_ids.get(self.enacted_count - 1).cloned().unwrap_or(u64::MAX)
		}
	}
	/// After a panic inside parity-db: never run its destructor.
	pub fn leak_db(&mut self) {
		for it in self.iters.iter_mut() {
			std::mem::forget(it.take());
		}
		crate::treeops::forget_all(self);
		std::mem::forget(self.db.take());
	}
	pub fn mark_restart(&mut self) {
		self.n_synced = self.n();
		self.recent.clear();
	}
}

#[derive(Clone, Debug)]
pub enum Observed {
	Kv {
		vals: BTreeMap<usize, Vec<u8>>,
		value_iter: Option<Vec<(u64, usize, u32)>>,
		order: Option<Vec<Vec<u8>>>,
	},
	Tree(crate::treeops::ObservedTrees),
}

fn pos_dbg(p: &IterPos) -> String {
	match p {
		IterPos::Start => "Start".into(),
		IterPos::End => "End".into(),
		IterPos::Seeked(k) => format!("Seeked({})", short_hex(k)),
		IterPos::At(k) => format!("At({})", short_hex(k)),
	}
}

pub fn short_hex(k: &[u8]) -> String {
	if k.len() <= 12 {
		hex(k)
	} else {
		format!("{}..({}B)", hex(&k[..8]), k.len())
	}
}

#[allow(dead_code)]
fn unused(_: HashSet<u8>) {}

impl<'a> Drop for Exec<'a> {
	fn drop(&mut self) {
		if std::thread::panicking() {
			// parity-db panicked: its state may be inconsistent and its own Drop could panic
			// again (abort). Leak the handle instead.
			for it in self.iters.iter_mut() {
				std::mem::forget(it.take());
			}
			crate::treeops::forget_all(self);
			std::mem::forget(self.db.take());
		}
	}
}
