//! Multitree operations, model and oracles (C10 / C11 single-thread part).

use crate::exec::Exec;
use crate::prng::fnv64;
use crate::structural::{read_stored, TableView};
use crate::world::*;
use parity_db::{NewNode, NodeRef, TreeReader};
use std::collections::{BTreeMap, HashMap, HashSet};
use std::sync::Arc;

type ReaderArc = Arc<parking_lot::RwLock<Box<dyn TreeReader + Send + Sync>>>;

type ReadGuard = parking_lot::RwLockReadGuard<'static, Box<dyn TreeReader + Send + Sync>>;

/// Runtime (non-model) state of tree columns: address bindings and held reader locks.
#[derive(Default)]
pub struct TreeRt {
	/// model node id -> database address
	pub addr: HashMap<u64, u64>,
	/// key index -> held reader lock
	pub locks: HashMap<usize, Held>,
	/// key index -> reader handle fetched earlier and kept unlocked
	pub handles: HashMap<usize, ReaderArc>,
}

/// A held tree reader lock. Field order matters: the guard must be dropped before the Arc that
/// owns the lock it refers to.
pub struct Held {
	pub guard: Option<ReadGuard>,
	pub reader: ReaderArc,
	pub digest: u64,
}

#[derive(Clone, Debug, Default)]
pub struct ObservedTrees {
	/// key index -> canonical digest of the whole tree
	pub roots: BTreeMap<usize, u64>,
	pub entries: Option<u64>,
	/// key index -> stored reference count of the root entry (columns with counted roots only;
	/// read from the table files, which hold everything right after an open)
	pub root_rc: Option<BTreeMap<usize, u32>>,
}

fn rt<'a>(ex: &'a mut Exec, col: u8) -> &'a mut TreeRt {
	while ex.tree_rt.len() <= col as usize {
		ex.tree_rt.push(TreeRt::default());
	}
	&mut ex.tree_rt[col as usize]
}

fn kind_flags(ex: &Exec, col: u8) -> (bool, bool, bool) {
	match ex.col_kinds[col as usize] {
		ColKind::Tree { append_only, rc_roots, direct } => (append_only, rc_roots, direct),
		_ => (false, false, false),
	}
}

// -- model ------------------------------------------------------------------------------------

fn model_insert(m: &mut TreeModel, spec: &TreeSpec, append_only: bool, resolve: &dyn Fn(&TreeModel, usize, &[u8]) -> Option<u64>) -> Option<TreeNodeM> {
	let mut children = Vec::new();
	for c in &spec.children {
		match c {
			ChildSpec::New(n) => {
				let node = model_insert(m, n, append_only, resolve)?;
				let id = m.next_id;
				m.next_id += 1;
				m.nodes.insert(id, (node, 1));
				children.push(id);
			},
			ChildSpec::Existing { root, path } => {
				let id = resolve(m, *root, path)?;
				if !append_only {
					m.nodes.get_mut(&id)?.1 += 1;
				}
				children.push(id);
			},
		}
	}
	Some(TreeNodeM { data: Arc::new(spec.data.bytes()), children })
}

fn model_dec(m: &mut TreeModel, id: u64) {
	let remove = match m.nodes.get_mut(&id) {
		Some(n) =>
			if n.1 > 1 {
				n.1 -= 1;
				false
			} else {
				true
			},
		None => false,
	};
	if remove {
		if let Some((node, _)) = m.nodes.remove(&id) {
			for c in node.children {
				model_dec(m, c);
			}
		}
	}
}

pub fn resolve_path(m: &TreeModel, keys: &[Vec<u8>], root: usize, path: &[u8]) -> Option<u64> {
	let r = m.roots.get(keys.get(root)?)?;
	let mut cur: Option<u64> = None;
	let mut children = &r.0.children;
	for p in path {
		let id = *children.get(*p as usize)?;
		cur = Some(id);
		children = &m.nodes.get(&id)?.0.children;
	}
	cur
}

/// Is this tree operation applicable to the current model state (valid commit)?
/// `touched`: keys inserted, referenced by address or removed earlier in this transaction;
/// `delta`: net change of the root count by earlier ReferenceTree / DereferenceTree of this
/// transaction.
pub fn applicable(ex: &Exec, col: u8, op: &TxOp, touched: &HashSet<usize>, delta: &HashMap<usize, i64>) -> bool {
	let (append_only, rc_roots, _) = kind_flags(ex, col);
	let ColModel::Tree(m) = &ex.cur[col as usize] else { return false };
	let keys = &ex.col_cfgs[col as usize].keys;
	match op {
		TxOp::InsertTree(k, spec) => {
			if touched.contains(k) || delta.contains_key(k) || m.roots.contains_key(&keys[*k]) {
				return false
			}
			// Re-inserting under a key whose (dereferenced) tree is still held by a reader is
			// outside the modelled use: root keys of live/held trees are distinct.
			if ex.tree_rt.get(col as usize).map_or(false, |r| r.locks.contains_key(k)) {
				return false
			}
			fn ok(m: &TreeModel, keys: &[Vec<u8>], s: &TreeSpec, touched: &HashSet<usize>, delta: &HashMap<usize, i64>, rt: &TreeRt) -> bool {
				if s.children.len() > 255 {
					return false
				}
				s.children.iter().all(|c| match c {
					ChildSpec::New(n) => ok(m, keys, n, touched, delta, rt),
					ChildSpec::Existing { root, path } =>
						!touched.contains(root) &&
							!delta.contains_key(root) &&
							!path.is_empty() && resolve_path(m, keys, *root, path).map_or(false, |id| rt.addr.contains_key(&id)),
				})
			}
			let empty = TreeRt::default();
			let r = ex.tree_rt.get(col as usize).unwrap_or(&empty);
			ok(m, keys, spec, touched, delta, r)
		},
		TxOp::RefTree(k) => !touched.contains(k) && (append_only || (rc_roots && m.roots.contains_key(&keys[*k]))),
		TxOp::DerefTree(k) => !touched.contains(k) && !append_only && m.roots.contains_key(&keys[*k]),
		_ => false,
	}
}

/// Bookkeeping of `applicable` after an operation was accepted into the transaction.
pub fn note_accepted(ex: &Exec, col: u8, op: &TxOp, touched: &mut HashSet<usize>, delta: &mut HashMap<usize, i64>) {
	let (append_only, rc_roots, _) = kind_flags(ex, col);
	let ColModel::Tree(m) = &ex.cur[col as usize] else { return };
	let keys = &ex.col_cfgs[col as usize].keys;
	match op {
		TxOp::InsertTree(k, spec) => {
			touched.insert(*k);
			// trees referenced by address must not be dereferenced later in the same transaction
			fn refs(s: &TreeSpec, out: &mut HashSet<usize>) {
				for c in &s.children {
					match c {
						ChildSpec::New(n) => refs(n, out),
						ChildSpec::Existing { root, .. } => {
							out.insert(*root);
						},
					}
				}
			}
			refs(spec, touched);
		},
		TxOp::RefTree(k) =>
			if rc_roots && !append_only {
				*delta.entry(*k).or_insert(0) += 1;
			} else {
				touched.insert(*k);
			},
		TxOp::DerefTree(k) => {
			let d = delta.entry(*k).or_insert(0);
			*d -= 1;
			let cnt = m.roots.get(&keys[*k]).map_or(0, |r| r.1 as i64);
			if !rc_roots || cnt + *d <= 0 {
				// the tree is gone: nothing else may name it in this transaction
				touched.insert(*k);
			}
		},
		_ => {},
	}
}

pub fn apply_model(ex: &mut Exec, col: u8, op: &TxOp) {
	let (append_only, rc_roots, _) = kind_flags(ex, col);
	let keys = ex.col_cfgs[col as usize].keys.clone();
	let ColModel::Tree(m) = &mut ex.cur[col as usize] else { return };
	match op {
		TxOp::InsertTree(k, spec) => {
			let keys2 = keys.clone();
			let resolve = move |m: &TreeModel, root: usize, path: &[u8]| resolve_path(m, &keys2, root, path);
			if let Some(node) = model_insert(m, spec, append_only, &resolve) {
				m.roots.insert(keys[*k].clone(), (node, 1));
			}
		},
		TxOp::RefTree(k) =>
			if rc_roots && !append_only {
				if let Some(r) = m.roots.get_mut(&keys[*k]) {
					r.1 += 1;
				}
			},
		TxOp::DerefTree(k) => {
			let gone = match m.roots.get_mut(&keys[*k]) {
				Some(r) =>
					if r.1 > 1 {
						r.1 -= 1;
						false
					} else {
						true
					},
				None => false,
			};
			if gone {
				if let Some((node, _)) = m.roots.remove(&keys[*k]) {
					for c in node.children {
						model_dec(m, c);
					}
				}
			}
		},
		_ => {},
	}
}

pub fn build_new_node(ex: &mut Exec, col: u8, t: &TreeSpec) -> NewNode {
	let keys = ex.col_cfgs[col as usize].keys.clone();
	let empty = TreeRt::default();
	fn build(m: &TreeModel, keys: &[Vec<u8>], rt: &TreeRt, t: &TreeSpec) -> NewNode {
		NewNode {
			data: t.data.bytes(),
			children: t
				.children
				.iter()
				.map(|c| match c {
					ChildSpec::New(n) => NodeRef::New(build(m, keys, rt, n)),
					ChildSpec::Existing { root, path } => {
						let addr = resolve_path(m, keys, *root, path).and_then(|id| rt.addr.get(&id).cloned()).unwrap_or(0);
						NodeRef::Existing(addr)
					},
				})
				.collect(),
		}
	}
	let ColModel::Tree(m) = &ex.cur[col as usize] else {
		return NewNode { data: Vec::new(), children: Vec::new() }
	};
	let r = ex.tree_rt.get(col as usize).unwrap_or(&empty);
	build(m, &keys, r, t)
}

// -- reading ----------------------------------------------------------------------------------

fn model_digest(m: &TreeModel, node: &TreeNodeM, memo: &mut HashMap<u64, u64>) -> u64 {
	let mut h = fnv64(0, &node.data);
	h = fnv64(h, &(node.children.len() as u64).to_le_bytes());
	for c in &node.children {
		let d = if let Some(d) = memo.get(c) {
			*d
		} else {
			let d = match m.nodes.get(c) {
				Some((n, _)) => model_digest(m, n, memo),
				None => 0xdead,
			};
			memo.insert(*c, d);
			d
		};
		h = fnv64(h, &d.to_le_bytes());
	}
	h
}

fn db_digest(reader: &dyn TreeReader, data: &[u8], children: &[u64], memo: &mut HashMap<u64, u64>, depth: u32) -> Result<u64, String> {
	if depth > 64 {
		return Err("tree deeper than 64 levels".into())
	}
	let mut h = fnv64(0, data);
	h = fnv64(h, &(children.len() as u64).to_le_bytes());
	for c in children {
		let d = if let Some(d) = memo.get(c) {
			*d
		} else {
			let d = match reader.get_node(*c) {
				Ok(Some((nd, nc))) => db_digest(reader, &nd, &nc, memo, depth + 1)?,
				Ok(None) => return Err(format!("node at address {c} is missing")),
				Err(e) => return Err(format!("get_node({c}) failed: {e}")),
			};
			memo.insert(*c, d);
			d
		};
		h = fnv64(h, &d.to_le_bytes());
	}
	Ok(h)
}

/// Compare the tree under `k` with the model node-by-node and bind addresses.
fn check_tree(ex: &mut Exec, col: u8, k: usize) {
	let victim = ex.deferral_victims.contains(&(col, k));
	ex.victim_ctx = victim;
	check_tree_inner(ex, col, k);
	ex.victim_ctx = false;
}

fn check_tree_inner(ex: &mut Exec, col: u8, k: usize) {
	let key = ex.col_cfgs[col as usize].keys[k].clone();
	let ColModel::Tree(m) = &ex.cur[col as usize] else { return };
	let m = m.clone();
	let expect = m.roots.get(&key).cloned();
	let all_logged = ex.pipeline_counts().0 == 0 && !ex.commit_lost_in_failed_step;
	let locked = ex.tree_rt.get(col as usize).map_or(false, |r| r.locks.contains_key(&k));
	let tree = match ex.db().get_tree(col, &key) {
		Ok(t) => t,
		Err(e) => {
			ex.push_violation("C10", "tree-read-error", format!("get_tree(col {col}, key#{k}) failed: {e}"));
			return
		},
	};
	ex.stats.reads_checked += 1;
	match (expect, tree) {
		(None, None) => {},
		(None, Some(t)) => {
			// still there: allowed until the dereference has been written to the log, and
			// while a reader holds the tree
			if all_logged && !locked {
				let g = t.read();
				if let Ok(Some(_)) = g.get_root() {
					ex.push_violation("C10", "tree-not-removed", format!("col {col} key#{k}: root still readable although its last reference is gone and every commit is logged"));
				}
			}
		},
		(Some(_), None) => {
			ex.push_violation("C10", "tree-missing", format!("col {col} key#{k}: get_tree returned None for a live tree"));
		},
		(Some((root, _count)), Some(t)) => {
			ex.stats.nonempty_reads += 1;
			let g = t.read();
			let (data, children) = match g.get_root() {
				Ok(Some(x)) => x,
				Ok(None) => {
					drop(g);
					ex.push_violation("C10", "tree-missing", format!("col {col} key#{k}: get_root returned None for a live tree"));
					return
				},
				Err(e) => {
					drop(g);
					ex.push_violation("C10", "tree-read-error", format!("col {col} key#{k}: get_root failed: {e}"));
					return
				},
			};
			let mut err: Option<String> = None;
			let mut binds: Vec<(u64, u64)> = Vec::new();
			let mut seen: HashSet<u64> = HashSet::new();
			let empty = TreeRt::default();
			let bound = &ex.tree_rt.get(col as usize).unwrap_or(&empty).addr;
			fn walk(
				g: &dyn TreeReader,
				m: &TreeModel,
				node: &TreeNodeM,
				data: &[u8],
				children: &[u64],
				bound: &HashMap<u64, u64>,
				binds: &mut Vec<(u64, u64)>,
				seen: &mut HashSet<u64>,
				err: &mut Option<String>,
				path: String,
			) {
				if err.is_some() {
					return
				}
				if *node.data != data {
					*err = Some(format!("node {path}: data differs ({} vs {} bytes)", data.len(), node.data.len()));
					return
				}
				if node.children.len() != children.len() {
					*err = Some(format!("node {path}: {} children read back, {} supplied", children.len(), node.children.len()));
					return
				}
				for (i, (id, addr)) in node.children.iter().zip(children.iter()).enumerate() {
					if let Some(a) = bound.get(id).or_else(|| binds.iter().find(|b| b.0 == *id).map(|b| &b.1)) {
						if a != addr {
							*err = Some(format!("node {path}: child {i} resolves to address {addr}, expected {a}"));
							return
						}
					} else {
						binds.push((*id, *addr));
					}
					if !seen.insert(*id) {
						continue
					}
					let Some((mn, _)) = m.nodes.get(id) else {
						*err = Some(format!("node {path}/{i}: model node missing (harness)"));
						return
					};
					match g.get_node(*addr) {
						Ok(Some((nd, nc))) => walk(g, m, mn, &nd, &nc, bound, binds, seen, err, format!("{path}/{i}")),
						Ok(None) => {
							*err = Some(format!("node {path}/{i} at address {addr} is missing"));
							return
						},
						Err(e) => {
							*err = Some(format!("get_node({addr}) for {path}/{i} failed: {e}"));
							return
						},
					}
				}
			}
			walk(&**g, &m, &root, &data, &children, bound, &mut binds, &mut seen, &mut err, format!("key#{k}"));
			drop(g);
			if let Some(e) = err {
				ex.push_violation("C10", "tree-readback-mismatch", format!("col {col}: {e}"));
			} else {
				let r = rt(ex, col);
				for (id, a) in binds {
					r.addr.insert(id, a);
				}
			}
		},
	}
}

pub fn check_all_trees(ex: &mut Exec, col: u8) {
	let n = ex.col_cfgs[col as usize].keys.len();
	for k in 0..n {
		check_tree(ex, col, k);
	}
	check_direct_access(ex, col);
}

/// Columns with direct node access: get_root / get_node without a reader agree with the model.
fn check_direct_access(ex: &mut Exec, col: u8) {
	let (append_only, _, direct) = kind_flags(ex, col);
	if !(append_only || direct) {
		return
	}
	let ColModel::Tree(m) = &ex.cur[col as usize] else { return };
	let m = m.clone();
	let keys = ex.col_cfgs[col as usize].keys.clone();
	for (k, key) in keys.iter().enumerate() {
		if let Some((root, _)) = m.roots.get(key) {
			match ex.db().get_root(col, key) {
				Ok(Some((data, children))) =>
					if *root.data != data || root.children.len() != children.len() {
						ex.push_violation("C10", "tree-readback-mismatch", format!("col {col} key#{k}: get_root differs from the inserted root"));
					},
				Ok(None) => ex.push_violation("C10", "tree-missing", format!("col {col} key#{k}: get_root returned None for a live tree")),
				Err(e) => ex.push_violation("C10", "tree-read-error", format!("get_root failed: {e}")),
			}
		}
	}
}

pub fn after_commit(ex: &mut Exec, tx: &[(u8, TxOp)]) {
	// bind addresses of freshly inserted trees right away (needed for later Existing refs)
	for (c, op) in tx {
		if let TxOp::InsertTree(k, _) = op {
			check_tree(ex, *c, *k);
		}
	}
}

pub fn after_adopt(ex: &mut Exec) {
	for r in ex.tree_rt.iter_mut() {
		r.addr.clear();
		r.locks.clear();
		r.handles.clear();
	}
}

fn live_counts(m: &TreeModel) -> u64 {
	(m.roots.len() + m.nodes.len()) as u64
}

pub fn observe(ex: &mut Exec, col: u8) -> Result<ObservedTrees, String> {
	let keys = ex.col_cfgs[col as usize].keys.clone();
	let mut out = ObservedTrees::default();
	for (k, key) in keys.iter().enumerate() {
		match ex.db().get_tree(col, key) {
			Ok(None) => {},
			Ok(Some(t)) => {
				let g = t.read();
				match g.get_root() {
					Ok(None) => {},
					Ok(Some((data, children))) => {
						let mut memo = HashMap::new();
						let d = db_digest(&**g, &data, &children, &mut memo, 0).map_err(|e| format!("col {col} key#{k}: {e}"))?;
						out.roots.insert(k, d);
					},
					Err(e) => return Err(format!("get_root(col {col}, key#{k}) failed after recovery: {e}")),
				}
			},
			Err(e) => return Err(format!("get_tree(col {col}, key#{k}) failed after recovery: {e}")),
		}
	}
	out.entries = ex.db().get_num_column_value_entries(col).ok();
	let (_, rc_roots, _) = kind_flags(ex, col);
	if rc_roots && ex.pipeline_idle() {
		out.root_rc = Some(stored_root_counts(ex, col, &out.roots.keys().cloned().collect::<Vec<_>>()));
	}
	Ok(out)
}

/// Reference counts of the root entries as stored in the table files (only meaningful while
/// nothing is pending in the pipeline).
pub fn stored_root_counts(ex: &Exec, col: u8, which: &[usize]) -> BTreeMap<usize, u32> {
	let dir = ex.live.clone();
	let salt = ex.cfg.salt();
	let keys = &ex.col_cfgs[col as usize].keys;
	let mut out = BTreeMap::new();
	crate::simdisk::muted(|| {
		let tables = crate::structural::load_tables(&dir, col as usize);
		let indexes = crate::structural::load_indexes(&dir, col as usize);
		for k in which {
			let h = crate::structural::hash_key(&keys[*k], &salt, false);
			'ix: for ix in indexes.iter().rev() {
				for (tier, off) in ix.lookup(&h) {
					if let Ok(s) = read_stored(&tables, tier, off, true, true) {
						if s.key26.as_deref() == Some(&h[6..32]) {
							out.insert(*k, s.rc);
							break 'ix
						}
					}
				}
			}
		}
	});
	out
}

pub fn matches(ex: &Exec, col: u8, o: &ObservedTrees, m: &TreeModel) -> Result<(), String> {
	let keys = &ex.col_cfgs[col as usize].keys;
	let mut memo = HashMap::new();
	for (k, key) in keys.iter().enumerate() {
		let want = m.roots.get(key).map(|(n, _)| model_digest(m, n, &mut memo));
		let got = o.roots.get(&k).cloned();
		if want != got {
			return Err(format!("col {col} tree key#{k}: db {:?}, state {:?}", got.is_some(), want.is_some()))
		}
		if let (Some(rcs), Some((_, cnt))) = (&o.root_rc, m.roots.get(key)) {
			if let Some(rc) = rcs.get(&k) {
				if rc != cnt {
					return Err(format!("col {col} tree key#{k}: stored root count {rc}, state {cnt}"))
				}
			}
		}
	}
	Ok(())
}

/// Entry-count conservation at a drained point (C10).
pub fn check_entry_count(ex: &mut Exec, col: u8) {
	let (append_only, _, _) = kind_flags(ex, col);
	if ex.claimed_leak.contains(&col) {
		ex.claim_ctx = true;
	}
	check_entry_count_inner(ex, col, append_only);
	ex.claim_ctx = false;
}

fn check_entry_count_inner(ex: &mut Exec, col: u8, append_only: bool) {
	if !ex.deferral_victims.is_empty() {
		// a postponed transaction was applied out of order (known C11 finding): counts are off
		return
	}
	let ColModel::Tree(m) = &ex.cur[col as usize] else { return };
	let want = live_counts(m);
	if append_only {
		return
	}
	if ex.tree_rt.get(col as usize).map_or(false, |r| !r.locks.is_empty()) {
		return
	}
	match ex.db().get_num_column_value_entries(col) {
		Ok(n) =>
			if n != want {
				ex.push_violation(
					"C10",
					"entry-count",
					format!("col {col}: get_num_column_value_entries = {n}, model has {want} live roots+nodes after drain"),
				);
			},
		Err(_) => ex.stats.probe("entry_count_unavailable_multipart"),
	}
}

// -- locks (C11, single-threaded deferral) ------------------------------------------------------

pub fn tree_handle(ex: &mut Exec, c: u8, k: usize) {
	if (c as usize) >= ex.col_kinds.len() || !ex.col_kinds[c as usize].is_tree() || !ex.has_db() {
		return
	}
	if k >= ex.col_cfgs[c as usize].keys.len() {
		return
	}
	let key = ex.col_cfgs[c as usize].keys[k].clone();
	if let Ok(Some(t)) = ex.db().get_tree(c, &key) {
		rt(ex, c).handles.insert(k, t);
		ex.stats.probe("tree_handle_kept");
	}
}

pub fn lock_tree(ex: &mut Exec, c: u8, k: usize) {
	if !ex.col_kinds[c as usize].is_tree() || !ex.has_db() {
		return
	}
	let key = ex.col_cfgs[c as usize].keys[k].clone();
	if rt(ex, c).locks.contains_key(&k) {
		return
	}
	// Only stable trees are locked: no commit that is still queued names this root key.
	let q = ex.pipeline_counts().0;
	let n = ex.commit_keys.len();
	for i in n.saturating_sub(q)..n {
		if ex.commit_keys[i].0.contains(&(c, k)) {
			return
		}
	}
	let ColModel::Tree(m) = &ex.cur[c as usize] else { return };
	let Some((root, _)) = m.roots.get(&key).cloned() else { return };
	let mut memo = HashMap::new();
	let digest = model_digest(m, &root, &mut memo);
	let kept = rt(ex, c).handles.remove(&k);
	let fetched = match kept {
		Some(t) => {
			ex.stats.probe("tree_locked_through_kept_handle");
			Ok(Some(t))
		},
		None => ex.db().get_tree(c, &key),
	};
	if let Ok(Some(t)) = fetched {
		let g = t.read();
		// The guard borrows the Arc we keep right next to it; dropped before the Arc.
		let g: ReadGuard = unsafe { std::mem::transmute(g) };
		rt(ex, c).locks.insert(k, Held { guard: Some(g), reader: t.clone(), digest });
		ex.locks_used = true;
		// commits still queued that dereference this tree will be postponed behind later ones
		let q = ex.pipeline_counts().0;
		let n = ex.commit_keys.len();
		let mut victims: Vec<(u8, usize)> = Vec::new();
		let mut hit = false;
		for i in n.saturating_sub(q)..n {
			let (all, derefs) = &ex.commit_keys[i];
			if derefs.contains(&(c, k)) {
				hit = true;
			}
			if hit {
				victims.extend(all.iter().cloned());
			}
		}
		if hit {
			ex.deferral_victims.extend(victims);
			ex.stats.probe("lock_taken_with_queued_dereference");
		}
		ex.stats.probe("tree_locked");
	}
}

pub fn unlock_tree(ex: &mut Exec, c: u8, k: usize) {
	if let Some(r) = ex.tree_rt.get_mut(c as usize) {
		if let Some(h) = r.locks.get_mut(&k) {
			h.guard = None;
		}
		r.locks.remove(&k);
	}
}

/// While a reader lock is held the tree must stay complete and unchanged (C11).
pub fn check_locked(ex: &mut Exec) {
	for c in 0..ex.tree_rt.len() {
		let ks: Vec<usize> = ex.tree_rt[c].locks.keys().cloned().collect();
		for k in ks {
			let res: Result<u64, String> = {
				let h = &ex.tree_rt[c].locks[&k];
				let _ = &h.reader;
				let g = h.guard.as_ref().unwrap();
				match g.get_root() {
					Ok(Some((data, children))) => {
						let mut memo = HashMap::new();
						db_digest(&***g, &data, &children, &mut memo, 0)
					},
					Ok(None) => Err("root is gone".into()),
					Err(e) => Err(format!("get_root failed: {e}")),
				}
			};
			let want = ex.tree_rt[c].locks[&k].digest;
			match res {
				Ok(d) if d == want => {},
				Ok(_) => ex.push_violation("C11", "locked-tree-changed", format!("col {c} key#{k}: tree content changed while its reader lock is held")),
				Err(e) => ex.push_violation("C11", "locked-tree-invalidated", format!("col {c} key#{k}: {e} while its reader lock is held")),
			}
		}
	}
}

pub fn release_all(ex: &mut Exec) {
	for r in ex.tree_rt.iter_mut() {
		for (_k, h) in r.locks.iter_mut() {
			h.guard = None;
		}
		r.locks.clear();
		r.handles.clear();
	}
}

pub fn forget_all(ex: &mut Exec) {
	for r in ex.tree_rt.iter_mut() {
		for (_k, v) in r.locks.drain() {
			std::mem::forget(v);
		}
	}
}

pub fn any_locked(ex: &Exec) -> bool {
	ex.tree_rt.iter().any(|r| !r.locks.is_empty())
}

// -- structural (C14) -------------------------------------------------------------------------

pub fn structural(
	dir: &str,
	ex: &Exec,
	col: usize,
	tables: &BTreeMap<u8, TableView>,
	_free: &HashMap<u8, HashSet<u64>>,
	out: &mut Vec<(String, String)>,
) {
	let (append_only, rc_roots, _) = kind_flags(ex, col as u8);
	let indexes = crate::structural::load_indexes(dir, col);
	// reach from roots (keyed entries named by index entries), then children (unkeyed)
	let mut reached: HashSet<(u8, u64)> = HashSet::new();
	let mut parents: HashMap<u64, u64> = HashMap::new();
	let mut stack: Vec<u64> = Vec::new();
	let mut visited_nodes: HashSet<u64> = HashSet::new();
	let mut roots = 0u64;
	let mut leftovers = 0u64;
	let push_children = |payload: &[u8], parents: &mut HashMap<u64, u64>, stack: &mut Vec<u64>| -> Result<(), String> {
		if payload.is_empty() {
			return Err("empty node payload".into())
		}
		let n = payload[payload.len() - 1] as usize;
		if payload.len() < n * 8 + 1 {
			return Err(format!("node payload of {} bytes cannot hold {n} children", payload.len()))
		}
		let base = payload.len() - 1 - n * 8;
		for i in 0..n {
			let a = u64::from_le_bytes(payload[base + i * 8..base + i * 8 + 8].try_into().unwrap());
			*parents.entry(a).or_insert(0) += 1;
			stack.push(a);
		}
		Ok(())
	};
	let mut root_addrs: HashSet<(u8, u64)> = HashSet::new();
	for ix in &indexes {
		for (_c, _s, _pk, tier, off) in ix.entries() {
			if !root_addrs.insert((tier, off)) {
				continue
			}
			match read_stored(tables, tier, off, true, rc_roots) {
				Ok(s) => {
					roots += 1;
					for sl in &s.slots {
						reached.insert(*sl);
					}
					if let Err(e) = push_children(&s.payload, &mut parents, &mut stack) {
						out.push(("tree-structure".into(), format!("col {col}: root at {tier:02x}:{off}: {e}")));
						return
					}
				},
				Err(_) => leftovers += 1,
			}
		}
	}
	let _ = leftovers;
	while let Some(a) = stack.pop() {
		if !visited_nodes.insert(a) {
			continue
		}
		let (tier, off) = ((a & 0xff) as u8, a >> 8);
		match read_stored(tables, tier, off, false, rc_roots) {
			Ok(s) => {
				for sl in &s.slots {
					reached.insert(*sl);
				}
				if let Err(e) = push_children(&s.payload, &mut parents, &mut stack) {
					out.push(("tree-structure".into(), format!("col {col}: node at {tier:02x}:{off}: {e}")));
					return
				}
			},
			Err(e) => {
				out.push(("tree-dangling-child".into(), format!("col {col}: a live tree references node {tier:02x}:{off}: {e}")));
				return
			},
		}
	}
	if let ColModel::Tree(m) = &ex.cur[col] {
		if m.roots.len() as u64 != roots {
			out.push(("live-count".into(), format!("col {col}: {roots} roots reachable through the index, model has {}", m.roots.len())));
		}
		if rc_roots {
			let keys = &ex.col_cfgs[col].keys;
			let which: Vec<usize> = (0..keys.len()).filter(|k| m.roots.contains_key(&keys[*k])).collect();
			let rcs = stored_root_counts(ex, col as u8, &which);
			for k in which {
				let want = m.roots[&keys[k]].1;
				if let Some(got) = rcs.get(&k) {
					if *got != want {
						out.push((
							"root-count".into(),
							format!("col {col} tree key#{k}: stored reference count of the root is {got}, model has {want}"),
						));
						break
					}
				}
			}
		}
		if !append_only && m.nodes.len() != visited_nodes.len() {
			out.push((
				"live-count".into(),
				format!("col {col}: {} nodes reachable from live roots on disk, model has {}", visited_nodes.len(), m.nodes.len()),
			));
		}
	}
	if !append_only {
		// every live slot must be reachable from a live root
		'outer: for (tier, t) in tables {
			for idx in 1..t.filled {
				let e = &t_entry(t, idx);
				if e.is_empty() {
					continue
				}
				let tomb = e[0] == 0xff && e[1] == 0xff;
				if !tomb && !reached.contains(&(*tier, idx)) {
					out.push((
						"slot-unreachable".into(),
						format!("col {col} tier {tier:02x}: slot {idx} is neither free nor reachable from a live tree root (leaked node)"),
					));
					break 'outer
				}
			}
		}
		// ref-count files: entry(addr) == number of referencing parents when >= 2, absent otherwise
		let mut counts: HashMap<u64, u64> = HashMap::new();
		for bits in 16..=40u8 {
			let path = format!("{}/refcount_{:02}_{}", dir, col, bits);
			if !std::path::Path::new(&path).exists() {
				continue
			}
			let sh = crate::simdisk::read_sparse(&path);
			for (p, pg) in &sh.pages {
				let _ = p;
				for i in 0..(crate::simdisk::PAGE / 16) {
					let a = u64::from_le_bytes(pg[i * 16..i * 16 + 8].try_into().unwrap());
					let c = u64::from_le_bytes(pg[i * 16 + 8..i * 16 + 16].try_into().unwrap());
					if a != 0 {
						counts.insert(a, c);
					}
				}
			}
		}
		for a in &visited_nodes {
			let p = parents.get(a).cloned().unwrap_or(0);
			let c = counts.get(a).cloned();
			let ok = if p >= 2 { c == Some(p) } else { c.is_none() || c == Some(p) && p >= 2 };
			if !ok {
				out.push((
					"refcount-mismatch".into(),
					format!("col {col}: node at address {a} has {p} referencing parents but the ref-count table holds {:?}", c),
				));
				break
			}
		}
		for (a, c) in &counts {
			if !visited_nodes.contains(a) {
				out.push((
					"refcount-orphan".into(),
					format!("col {col}: ref-count table holds count {c} for address {a} which is not a live node"),
				));
				break
			}
		}
	}
}

fn t_entry(t: &TableView, idx: u64) -> Vec<u8> {
	t.raw_entry(idx).map(|e| e.to_vec()).unwrap_or_default()
}
