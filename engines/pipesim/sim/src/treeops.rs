//! Multitree operations and model (C10 / C11). Filled in later.
use crate::exec::Exec;
use crate::world::*;

#[derive(Clone, Debug, Default)]
pub struct ObservedTrees {}

pub fn apply_model(_ex: &mut Exec, _col: u8, _op: &TxOp) {}
pub fn build_new_node(_ex: &mut Exec, _col: u8, _t: &TreeSpec) -> parity_db::NewNode {
	parity_db::NewNode { data: Vec::new(), children: Vec::new() }
}
pub fn check_all_trees(_ex: &mut Exec, _col: u8) {}
pub fn observe(_ex: &mut Exec, _col: u8) -> Result<ObservedTrees, String> {
	Ok(ObservedTrees {})
}
pub fn matches(_ex: &Exec, _col: u8, _o: &ObservedTrees, _m: &TreeModel) -> Result<(), String> {
	Ok(())
}
pub fn after_adopt(_ex: &mut Exec) {}
pub fn after_commit(_ex: &mut Exec, _tx: &[(u8, TxOp)]) {}
pub fn lock_tree(_ex: &mut Exec, _c: u8, _k: usize) {}
pub fn unlock_tree(_ex: &mut Exec, _c: u8, _k: usize) {}
pub fn release_all(_ex: &mut Exec) {}
pub fn forget_all(_ex: &mut Exec) {}
