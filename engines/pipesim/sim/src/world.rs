//! Configuration, operations and reference models (no parity-db types inside the models).

use crate::prng::{fnv64, mix64, Rng};
use serde_json::{json, Value as J};
use std::collections::BTreeMap;
use std::sync::Arc;

// ---------------------------------------------------------------------------------------------
// Configuration

#[derive(Clone, Copy, Debug, PartialEq, Eq)]
pub enum ColKind {
	Hash,
	HashUniform,
	HashPreimage,
	HashRc,  // preimage + ref_counted
	Btree,
	BtreeRc, // btree + preimage + ref_counted
	Tree { append_only: bool, rc_roots: bool, direct: bool },
}

impl ColKind {
	pub fn name(&self) -> String {
		match self {
			ColKind::Hash => "hash".into(),
			ColKind::HashUniform => "hash-uniform".into(),
			ColKind::HashPreimage => "hash-preimage".into(),
			ColKind::HashRc => "hash-rc".into(),
			ColKind::Btree => "btree".into(),
			ColKind::BtreeRc => "btree-rc".into(),
			ColKind::Tree { append_only, rc_roots, direct } =>
				format!("tree:{}{}{}", *append_only as u8, *rc_roots as u8, *direct as u8),
		}
	}
	pub fn parse(s: &str) -> ColKind {
		match s {
			"hash" => ColKind::Hash,
			"hash-uniform" => ColKind::HashUniform,
			"hash-preimage" => ColKind::HashPreimage,
			"hash-rc" => ColKind::HashRc,
			"btree" => ColKind::Btree,
			"btree-rc" => ColKind::BtreeRc,
			_ => {
				let b = s.as_bytes();
				ColKind::Tree { append_only: b[5] == b'1', rc_roots: b[6] == b'1', direct: b[7] == b'1' }
			},
		}
	}
	pub fn is_btree(&self) -> bool {
		matches!(self, ColKind::Btree | ColKind::BtreeRc)
	}
	pub fn is_tree(&self) -> bool {
		matches!(self, ColKind::Tree { .. })
	}
	pub fn is_rc(&self) -> bool {
		matches!(self, ColKind::HashRc | ColKind::BtreeRc)
	}
	pub fn is_preimage(&self) -> bool {
		matches!(self, ColKind::HashPreimage | ColKind::HashRc | ColKind::BtreeRc)
	}
	pub fn is_hash_kv(&self) -> bool {
		matches!(self, ColKind::Hash | ColKind::HashUniform | ColKind::HashPreimage | ColKind::HashRc)
	}
}

/// Deterministic value description: bytes are a pure function of the spec.
#[derive(Clone, Copy, Debug, PartialEq, Eq)]
pub struct ValSpec {
	pub len: u32,
	pub seed: u64,
	pub compressible: bool,
}

impl ValSpec {
	pub fn bytes(&self) -> Vec<u8> {
		let mut v = vec![0u8; self.len as usize];
		if self.compressible {
			// Runs of a few distinct bytes, tagged with the seed in the first bytes.
			let mut r = Rng::new(self.seed);
			let mut i = 0usize;
			while i < v.len() {
				let b = (r.next() & 0xff) as u8;
				let run = 8 + (r.next() % 120) as usize;
				let end = std::cmp::min(v.len(), i + run);
				for x in v[i..end].iter_mut() {
					*x = b;
				}
				i = end;
			}
			let tag = self.seed.to_le_bytes();
			let n = std::cmp::min(8, v.len());
			v[..n].copy_from_slice(&tag[..n]);
		} else {
			Rng::new(self.seed).fill(&mut v);
		}
		v
	}
	pub fn json(&self) -> J {
		json!([self.len, self.seed.to_string(), self.compressible as u8])
	}
	pub fn from_json(j: &J) -> ValSpec {
		ValSpec {
			len: j[0].as_u64().unwrap() as u32,
			seed: j[1].as_str().unwrap().parse().unwrap(),
			compressible: j[2].as_u64().unwrap() != 0,
		}
	}
}

#[derive(Clone, Debug)]
pub struct ColCfg {
	pub kind: ColKind,
	pub compression: u8, // 0 none, 1 lz4, 2 snappy
	pub threshold: u32,
	/// Key universe of this column.
	pub keys: Vec<Vec<u8>>,
	/// For preimage columns: the value every key maps to.
	pub preimage_vals: Vec<ValSpec>,
	/// (seed, count, mask): the last `count` keys are `bulk_keys(seed, count, mask)` (kept out of
	/// replay files).
	pub bulk: Option<(u64, u32, u16)>,
}

/// Many 32-byte keys (identity-hash column); `mask` restricts the index pages they spread over.
pub fn bulk_keys(seed: u64, n: u32, mask: u16) -> Vec<Vec<u8>> {
	let mut r = Rng::new(seed);
	let mut seen = std::collections::HashSet::new();
	let mut out = Vec::with_capacity(n as usize);
	while out.len() < n as usize {
		let mut k = vec![0u8; 32];
		r.fill(&mut k);
		let top = u16::from_be_bytes([k[0], k[1]]) & mask;
		k[0..2].copy_from_slice(&top.to_be_bytes());
		if seen.insert(k.clone()) {
			out.push(k);
		}
	}
	out
}

#[derive(Clone, Debug)]
pub struct RunCfg {
	pub scenario: String,
	pub cols: Vec<ColCfg>,
	pub salt_zero: bool,
	pub salt_seed: u64,
	pub sync_wal: bool,
	pub sync_data: bool,
	pub stats: bool,
	pub max_read: usize,
	pub max_write: usize,
	pub eintr_one_in: u32,
	pub disk_seed: u64,
}

pub fn hex(b: &[u8]) -> String {
	let mut s = String::with_capacity(b.len() * 2);
	for x in b {
		s.push_str(&format!("{:02x}", x));
	}
	s
}

pub fn unhex(s: &str) -> Vec<u8> {
	(0..s.len() / 2).map(|i| u8::from_str_radix(&s[2 * i..2 * i + 2], 16).unwrap()).collect()
}

/// Compact key encoding for replay files: long runs are written as "len*byte".
pub fn key_json(k: &[u8]) -> J {
	if k.len() > 40 {
		// prefix(8 bytes hex) + filler description: keys from the generator are prefix + filler
		let fill = k[k.len() - 1];
		let mut n = k.len();
		while n > 0 && k[n - 1] == fill {
			n -= 1;
		}
		json!({"p": hex(&k[..n]), "f": fill, "n": k.len()})
	} else {
		J::String(hex(k))
	}
}

pub fn key_from_json(j: &J) -> Vec<u8> {
	if let Some(s) = j.as_str() {
		unhex(s)
	} else {
		let mut v = unhex(j["p"].as_str().unwrap());
		let n = j["n"].as_u64().unwrap() as usize;
		let f = j["f"].as_u64().unwrap() as u8;
		while v.len() < n {
			v.push(f);
		}
		v
	}
}

impl RunCfg {
	pub fn json(&self) -> J {
		json!({
			"scenario": self.scenario,
			"cols": self.cols.iter().map(|c| json!({
				"kind": c.kind.name(),
				"compression": c.compression,
				"threshold": c.threshold,
				"keys": c.keys[..c.keys.len() - c.bulk.map_or(0, |b| b.1 as usize)].iter().map(|k| key_json(k)).collect::<Vec<_>>(),
				"bulk": c.bulk.map(|(s, n, m)| json!({"seed": s.to_string(), "n": n, "mask": m})),
				"preimage_vals": c.preimage_vals.iter().map(|v| v.json()).collect::<Vec<_>>(),
			})).collect::<Vec<_>>(),
			"salt_zero": self.salt_zero,
			"salt_seed": self.salt_seed.to_string(),
			"sync_wal": self.sync_wal,
			"sync_data": self.sync_data,
			"stats": self.stats,
			"max_read": self.max_read,
			"max_write": self.max_write,
			"eintr_one_in": self.eintr_one_in,
			"disk_seed": self.disk_seed.to_string(),
		})
	}
	pub fn from_json(j: &J) -> RunCfg {
		RunCfg {
			scenario: j["scenario"].as_str().unwrap().to_string(),
			cols: j["cols"]
				.as_array()
				.unwrap()
				.iter()
				.map(|c| {
					let bulk = c.get("bulk").filter(|b| b.is_object()).map(|b| {
						(b["seed"].as_str().unwrap().parse::<u64>().unwrap(), b["n"].as_u64().unwrap() as u32, b["mask"].as_u64().unwrap() as u16)
					});
					let mut keys: Vec<Vec<u8>> = c["keys"].as_array().unwrap().iter().map(key_from_json).collect();
					if let Some((s, n, m)) = bulk {
						keys.extend(bulk_keys(s, n, m));
					}
					ColCfg {
					kind: ColKind::parse(c["kind"].as_str().unwrap()),
					compression: c["compression"].as_u64().unwrap() as u8,
					threshold: c["threshold"].as_u64().unwrap() as u32,
					keys,
					bulk,
					preimage_vals: c["preimage_vals"]
						.as_array()
						.unwrap()
						.iter()
						.map(ValSpec::from_json)
						.collect(),
					}
				})
				.collect(),
			salt_zero: j["salt_zero"].as_bool().unwrap(),
			salt_seed: j["salt_seed"].as_str().unwrap().parse().unwrap(),
			sync_wal: j["sync_wal"].as_bool().unwrap(),
			sync_data: j["sync_data"].as_bool().unwrap(),
			stats: j["stats"].as_bool().unwrap(),
			max_read: j["max_read"].as_u64().unwrap() as usize,
			max_write: j["max_write"].as_u64().unwrap() as usize,
			eintr_one_in: j["eintr_one_in"].as_u64().unwrap() as u32,
			disk_seed: j["disk_seed"].as_str().unwrap().parse().unwrap(),
		}
	}
	pub fn salt(&self) -> [u8; 32] {
		let mut s = [0u8; 32];
		if !self.salt_zero {
			Rng::new(self.salt_seed).fill(&mut s);
			if s == [0u8; 32] {
				s[0] = 1;
			}
		}
		s
	}
}

// ---------------------------------------------------------------------------------------------
// Operations

#[derive(Clone, Debug, PartialEq)]
pub enum TxOp {
	Set(usize, ValSpec), // key index, value
	Del(usize),          // Dereference
	Ref(usize),          // Reference
	/// Explicit-key variants used for invalid / out-of-universe operations.
	RawRef(Vec<u8>),
	InsertTree(usize, TreeSpec),
	RefTree(usize),
	DerefTree(usize),
}

/// Tree to insert. Node payloads are ValSpecs; children either new nodes or references to an
/// existing node of a live tree, named by (root key index, pre-order index within that tree as
/// recorded in the model).
#[derive(Clone, Debug, PartialEq)]
pub struct TreeSpec {
	pub data: ValSpec,
	pub children: Vec<ChildSpec>,
}

#[derive(Clone, Debug, PartialEq)]
pub enum ChildSpec {
	New(TreeSpec),
	Existing { root: usize, path: Vec<u8> },
}

#[derive(Clone, Copy, Debug, PartialEq, Eq, Hash, PartialOrd, Ord)]
pub enum Stage {
	ProcessCommits,
	ProcessReindex,
	Flush,
	EnactOne,
	EnactAll,
	Clean,
}

pub const STAGES: [Stage; 6] =
	[Stage::ProcessCommits, Stage::ProcessReindex, Stage::Flush, Stage::EnactOne, Stage::EnactAll, Stage::Clean];

impl Stage {
	pub fn name(&self) -> &'static str {
		match self {
			Stage::ProcessCommits => "process_commits",
			Stage::ProcessReindex => "process_reindex",
			Stage::Flush => "flush_logs",
			Stage::EnactOne => "enact_one",
			Stage::EnactAll => "enact_logs",
			Stage::Clean => "clean_logs",
		}
	}
	pub fn parse(s: &str) -> Stage {
		*STAGES.iter().find(|x| x.name() == s).expect("stage")
	}
}

#[derive(Clone, Copy, Debug, PartialEq, Eq)]
pub enum IterCall {
	SeekFirst,
	SeekLast,
	Seek(usize),
	Next,
	Prev,
}

#[derive(Clone, Debug, PartialEq)]
pub enum CrashKind {
	Proc,
	Power { p_num: u32, p_den: u32 },
}

#[derive(Clone, Debug, PartialEq)]
pub struct CrashPlan {
	pub kind: CrashKind,
	pub stride: u32,
	pub phase: u32,
	pub max: u32,
	/// Which of the images taken the run continues on (index modulo number of images).
	pub adopt: u32,
	/// Also take a boundary image after the step.
	pub boundary: bool,
	/// Crash again during the recovery of the adopted image (depth).
	pub recrash: u8,
}

#[derive(Clone, Debug, PartialEq)]
pub enum LogMutation {
	Truncate { file_sel: u32, at: u32 },
	FlipBit { file_sel: u32, at: u32, bit: u8 },
	FlipTwo { file_sel: u32, at: u32, bit: u8, dist: u32, bit2: u8 },
	Burst { file_sel: u32, at: u32, xor: u32 },
	AppendGarbage { file_sel: u32, len: u32, seed: u64 },
	Delete { file_sel: u32 },
	Duplicate { file_sel: u32 },
	SwapNames { a: u32, b: u32 },
	ZeroLen { file_sel: u32 },
	SubHeader { file_sel: u32, len: u8 },
	Stale { which: u32 },
	/// Structure-aware: overwrite one header field of one log entry (table id, slot / page index,
	/// page mask, size field of a value entry, record id, checksum) with an extreme or random value.
	Field { file_sel: u32, entry_sel: u32, val_sel: u32, seed: u64 },
}

#[derive(Clone, Debug, PartialEq)]
pub enum Op {
	Commit(Vec<(u8, TxOp)>),
	/// A transaction containing at least one invalid operation: must be refused without trace.
	/// With `bg_err` a background error is stored first (every commit must then be refused).
	BadCommit { tx: Vec<(u8, TxOp)>, bg_err: bool },
	Step(Stage),
	/// Drop the handle cleanly and reopen.
	Restart,
	/// Execute `inner` with crash images armed, verify every image, continue on one of them.
	Crash { inner: Box<Op>, plan: CrashPlan },
	Iter(u8, IterCall),
	/// Drain the whole pipeline (process all commits, flush, enact, clean).
	Drain,
	/// Fail file operations: the `after`-th failable event of `inner` (and all later ones).
	/// `space_only`: only operations that need disk space fail (create, write, extend), as on a
	/// full disk; reads, syncs and unlink keep working.
	IoErr { inner: Box<Op>, after: u32, errno: i32, tryio: bool, space_only: bool },
	/// Save a copy of current log files for later `LogMutation::Stale`.
	StashLogs,
	/// Take an image now, mutate its logs, verify recovery (C13); the run then continues on it.
	LogFuzz { muts: Vec<LogMutation>, adopt: bool },
	LockTree(u8, usize),
	UnlockTree(u8, usize),
	/// Fetch (and keep, unlocked) the reader handle of a tree; a later LockTree uses it.
	TreeHandle(u8, usize),
	/// Column administration on the closed database; with `true` the call is made on a copy of the
	/// directory that still has unreplayed logs.
	Admin(AdminOp, bool),
	/// Migrate the database to other column options (hash columns only). `dest`: per column the
	/// new kind name and compression. The run continues on the migrated database.
	Migrate { dest: Vec<(String, u8)>, overwrite: bool, force: Vec<u8>, pending: bool },
}

#[derive(Clone, Debug, PartialEq)]
pub enum AdminOp {
	AddColumn(String),
	DropLastColumn,
	ResetColumn(u8, Option<String>),
	ClearColumn(u8),
	OpenMismatch { col: u8, field: u8 },
	OpenWrongCount(i8),
}

fn txop_json(t: &TxOp) -> J {
	match t {
		TxOp::Set(k, v) => json!(["set", k, v.json()]),
		TxOp::Del(k) => json!(["del", k]),
		TxOp::Ref(k) => json!(["ref", k]),
		TxOp::RawRef(k) => json!(["rawref", hex(k)]),
		TxOp::InsertTree(k, t) => json!(["instree", k, tree_json(t)]),
		TxOp::RefTree(k) => json!(["reftree", k]),
		TxOp::DerefTree(k) => json!(["dereftree", k]),
	}
}

fn tree_json(t: &TreeSpec) -> J {
	json!({"d": t.data.json(), "c": t.children.iter().map(|c| match c {
		ChildSpec::New(n) => tree_json(n),
		ChildSpec::Existing{root, path} => json!({"x": root, "path": path}),
	}).collect::<Vec<_>>()})
}

fn tree_from_json(j: &J) -> TreeSpec {
	TreeSpec {
		data: ValSpec::from_json(&j["d"]),
		children: j["c"]
			.as_array()
			.unwrap()
			.iter()
			.map(|c| {
				if c.get("x").is_some() {
					ChildSpec::Existing {
						root: c["x"].as_u64().unwrap() as usize,
						path: c["path"].as_array().unwrap().iter().map(|x| x.as_u64().unwrap() as u8).collect(),
					}
				} else {
					ChildSpec::New(tree_from_json(c))
				}
			})
			.collect(),
	}
}

fn txop_from_json(j: &J) -> TxOp {
	let k = || j[1].as_u64().unwrap() as usize;
	match j[0].as_str().unwrap() {
		"set" => TxOp::Set(k(), ValSpec::from_json(&j[2])),
		"del" => TxOp::Del(k()),
		"ref" => TxOp::Ref(k()),
		"rawref" => TxOp::RawRef(unhex(j[1].as_str().unwrap())),
		"instree" => TxOp::InsertTree(k(), tree_from_json(&j[2])),
		"reftree" => TxOp::RefTree(k()),
		"dereftree" => TxOp::DerefTree(k()),
		x => panic!("txop {x}"),
	}
}

fn mut_json(m: &LogMutation) -> J {
	match m {
		LogMutation::Truncate { file_sel, at } => json!(["truncate", file_sel, at]),
		LogMutation::FlipBit { file_sel, at, bit } => json!(["flip", file_sel, at, bit]),
		LogMutation::FlipTwo { file_sel, at, bit, dist, bit2 } =>
			json!(["flip2", file_sel, at, bit, dist, bit2]),
		LogMutation::Burst { file_sel, at, xor } => json!(["burst", file_sel, at, xor]),
		LogMutation::AppendGarbage { file_sel, len, seed } =>
			json!(["garbage", file_sel, len, seed.to_string()]),
		LogMutation::Delete { file_sel } => json!(["delete", file_sel]),
		LogMutation::Duplicate { file_sel } => json!(["dup", file_sel]),
		LogMutation::SwapNames { a, b } => json!(["swap", a, b]),
		LogMutation::ZeroLen { file_sel } => json!(["zerolen", file_sel]),
		LogMutation::SubHeader { file_sel, len } => json!(["subheader", file_sel, len]),
		LogMutation::Stale { which } => json!(["stale", which]),
		LogMutation::Field { file_sel, entry_sel, val_sel, seed } => json!(["field", file_sel, entry_sel, val_sel, seed.to_string()]),
	}
}

fn mut_from_json(j: &J) -> LogMutation {
	let u = |i: usize| j[i].as_u64().unwrap() as u32;
	match j[0].as_str().unwrap() {
		"truncate" => LogMutation::Truncate { file_sel: u(1), at: u(2) },
		"flip" => LogMutation::FlipBit { file_sel: u(1), at: u(2), bit: u(3) as u8 },
		"flip2" =>
			LogMutation::FlipTwo { file_sel: u(1), at: u(2), bit: u(3) as u8, dist: u(4), bit2: u(5) as u8 },
		"burst" => LogMutation::Burst { file_sel: u(1), at: u(2), xor: u(3) },
		"garbage" => LogMutation::AppendGarbage {
			file_sel: u(1),
			len: u(2),
			seed: j[3].as_str().unwrap().parse().unwrap(),
		},
		"delete" => LogMutation::Delete { file_sel: u(1) },
		"dup" => LogMutation::Duplicate { file_sel: u(1) },
		"swap" => LogMutation::SwapNames { a: u(1), b: u(2) },
		"zerolen" => LogMutation::ZeroLen { file_sel: u(1) },
		"subheader" => LogMutation::SubHeader { file_sel: u(1), len: u(2) as u8 },
		"stale" => LogMutation::Stale { which: u(1) },
		"field" => LogMutation::Field { file_sel: u(1), entry_sel: u(2), val_sel: u(3), seed: j[4].as_str().unwrap().parse().unwrap() },
		x => panic!("mutation {x}"),
	}
}

impl Op {
	pub fn json(&self) -> J {
		match self {
			Op::Commit(tx) => json!({"op": "commit", "tx": tx.iter().map(|(c, t)| json!([c, txop_json(t)])).collect::<Vec<_>>()}),
			Op::BadCommit { tx, bg_err } => json!({"op": "badcommit", "bg_err": bg_err, "tx": tx.iter().map(|(c, t)| json!([c, txop_json(t)])).collect::<Vec<_>>()}),
			Op::Step(s) => json!({"op": "step", "stage": s.name()}),
			Op::Restart => json!({"op": "restart"}),
			Op::Drain => json!({"op": "drain"}),
			Op::Crash { inner, plan } => json!({"op": "crash", "inner": inner.json(),
				"kind": match &plan.kind { CrashKind::Proc => json!("proc"), CrashKind::Power{p_num,p_den} => json!([p_num,p_den]) },
				"stride": plan.stride, "phase": plan.phase, "max": plan.max, "adopt": plan.adopt,
				"boundary": plan.boundary, "recrash": plan.recrash}),
			Op::Iter(c, call) => json!({"op": "iter", "col": c, "call": match call {
				IterCall::SeekFirst => json!("first"), IterCall::SeekLast => json!("last"),
				IterCall::Seek(k) => json!(["seek", k]), IterCall::Next => json!("next"), IterCall::Prev => json!("prev") }}),
			Op::IoErr { inner, after, errno, tryio, space_only } =>
				json!({"op": "ioerr", "inner": inner.json(), "after": after, "errno": errno, "tryio": tryio, "space_only": space_only}),
			Op::StashLogs => json!({"op": "stashlogs"}),
			Op::LogFuzz { muts, adopt } =>
				json!({"op": "logfuzz", "muts": muts.iter().map(mut_json).collect::<Vec<_>>(), "adopt": adopt}),
			Op::LockTree(c, k) => json!({"op": "locktree", "col": c, "key": k}),
			Op::UnlockTree(c, k) => json!({"op": "unlocktree", "col": c, "key": k}),
			Op::TreeHandle(c, k) => json!({"op": "treehandle", "col": c, "key": k}),
			Op::Migrate { dest, overwrite, force, pending } => json!({"op": "migrate",
				"dest": dest.iter().map(|(k, c)| json!([k, c])).collect::<Vec<_>>(),
				"overwrite": overwrite, "force": force, "pending": pending}),
			Op::Admin(a, pending) => match a {
				AdminOp::AddColumn(k) => json!({"op": "admin", "what": "add", "kind": k, "pending": pending}),
				AdminOp::DropLastColumn => json!({"op": "admin", "what": "droplast", "pending": pending}),
				AdminOp::ResetColumn(c, k) => json!({"op": "admin", "what": "reset", "col": c, "kind": k, "pending": pending}),
				AdminOp::ClearColumn(c) => json!({"op": "admin", "what": "clear", "col": c, "pending": pending}),
				AdminOp::OpenMismatch { col, field } =>
					json!({"op": "admin", "what": "mismatch", "col": col, "field": field, "pending": pending}),
				AdminOp::OpenWrongCount(d) => json!({"op": "admin", "what": "wrongcount", "d": d, "pending": pending}),
			},
		}
	}

	pub fn from_json(j: &J) -> Op {
		match j["op"].as_str().unwrap() {
			"commit" => Op::Commit(
				j["tx"]
					.as_array()
					.unwrap()
					.iter()
					.map(|e| (e[0].as_u64().unwrap() as u8, txop_from_json(&e[1])))
					.collect(),
			),
			"badcommit" => Op::BadCommit {
				tx: j["tx"]
					.as_array()
					.unwrap()
					.iter()
					.map(|e| (e[0].as_u64().unwrap() as u8, txop_from_json(&e[1])))
					.collect(),
				bg_err: j["bg_err"].as_bool().unwrap_or(false),
			},
			"step" => Op::Step(Stage::parse(j["stage"].as_str().unwrap())),
			"restart" => Op::Restart,
			"drain" => Op::Drain,
			"crash" => Op::Crash {
				inner: Box::new(Op::from_json(&j["inner"])),
				plan: CrashPlan {
					kind: if j["kind"].is_string() {
						CrashKind::Proc
					} else {
						CrashKind::Power {
							p_num: j["kind"][0].as_u64().unwrap() as u32,
							p_den: j["kind"][1].as_u64().unwrap() as u32,
						}
					},
					stride: j["stride"].as_u64().unwrap() as u32,
					phase: j["phase"].as_u64().unwrap() as u32,
					max: j["max"].as_u64().unwrap() as u32,
					adopt: j["adopt"].as_u64().unwrap() as u32,
					boundary: j["boundary"].as_bool().unwrap(),
					recrash: j["recrash"].as_u64().unwrap() as u8,
				},
			},
			"iter" => Op::Iter(j["col"].as_u64().unwrap() as u8, {
				let c = &j["call"];
				if let Some(s) = c.as_str() {
					match s {
						"first" => IterCall::SeekFirst,
						"last" => IterCall::SeekLast,
						"next" => IterCall::Next,
						_ => IterCall::Prev,
					}
				} else {
					IterCall::Seek(c[1].as_u64().unwrap() as usize)
				}
			}),
			"ioerr" => Op::IoErr {
				inner: Box::new(Op::from_json(&j["inner"])),
				after: j["after"].as_u64().unwrap() as u32,
				errno: j["errno"].as_i64().unwrap() as i32,
				tryio: j["tryio"].as_bool().unwrap(),
				space_only: j["space_only"].as_bool().unwrap_or(false),
			},
			"stashlogs" => Op::StashLogs,
			"logfuzz" => Op::LogFuzz {
				muts: j["muts"].as_array().unwrap().iter().map(mut_from_json).collect(),
				adopt: j["adopt"].as_bool().unwrap(),
			},
			"locktree" => Op::LockTree(j["col"].as_u64().unwrap() as u8, j["key"].as_u64().unwrap() as usize),
			"unlocktree" =>
				Op::UnlockTree(j["col"].as_u64().unwrap() as u8, j["key"].as_u64().unwrap() as usize),
			"treehandle" =>
				Op::TreeHandle(j["col"].as_u64().unwrap() as u8, j["key"].as_u64().unwrap() as usize),
			"migrate" => Op::Migrate {
				dest: j["dest"].as_array().unwrap().iter().map(|e| (e[0].as_str().unwrap().to_string(), e[1].as_u64().unwrap() as u8)).collect(),
				overwrite: j["overwrite"].as_bool().unwrap(),
				force: j["force"].as_array().unwrap().iter().map(|x| x.as_u64().unwrap() as u8).collect(),
				pending: j["pending"].as_bool().unwrap(),
			},
			"admin" => Op::Admin(match j["what"].as_str().unwrap() {
				"add" => AdminOp::AddColumn(j["kind"].as_str().unwrap().to_string()),
				"droplast" => AdminOp::DropLastColumn,
				"reset" => AdminOp::ResetColumn(
					j["col"].as_u64().unwrap() as u8,
					j["kind"].as_str().map(|s| s.to_string()),
				),
				"clear" => AdminOp::ClearColumn(j["col"].as_u64().unwrap() as u8),
				"mismatch" => AdminOp::OpenMismatch {
					col: j["col"].as_u64().unwrap() as u8,
					field: j["field"].as_u64().unwrap() as u8,
				},
				_ => AdminOp::OpenWrongCount(j["d"].as_i64().unwrap() as i8),
			}, j["pending"].as_bool().unwrap_or(false)),
			x => panic!("op {x}"),
		}
	}

	pub fn kind_name(&self) -> &'static str {
		match self {
			Op::Commit(_) => "commit",
			Op::BadCommit { .. } => "badcommit",
			Op::Step(s) => s.name(),
			Op::Restart => "restart",
			Op::Drain => "drain",
			Op::Crash { .. } => "crash",
			Op::Iter(..) => "iter",
			Op::IoErr { .. } => "ioerr",
			Op::StashLogs => "stashlogs",
			Op::LogFuzz { .. } => "logfuzz",
			Op::LockTree(..) => "locktree",
			Op::UnlockTree(..) => "unlocktree",
			Op::TreeHandle(..) => "treehandle",
			Op::Admin(..) => "admin",
			Op::Migrate { .. } => "migrate",
		}
	}
}

// ---------------------------------------------------------------------------------------------
// Reference models

pub type Bytes = Arc<Vec<u8>>;

/// Key-value column: key -> (value, count). For non-rc columns count is always 1.
#[derive(Clone, Debug, Default, PartialEq)]
pub struct KvModel {
	pub map: BTreeMap<Vec<u8>, (Bytes, u32)>,
}

#[derive(Clone, Debug, Default, PartialEq)]
pub struct TreeNodeM {
	pub data: Bytes,
	pub children: Vec<u64>, // model node ids
}

/// Multitree column model: roots by key (with count), node store with parent counts.
#[derive(Clone, Debug, Default, PartialEq)]
pub struct TreeModel {
	pub roots: BTreeMap<Vec<u8>, (TreeNodeM, u32)>,
	pub nodes: BTreeMap<u64, (TreeNodeM, u32)>, // id -> (node, number of referencing parents)
	pub next_id: u64,
}

#[derive(Clone, Debug, PartialEq)]
pub enum ColModel {
	Kv(KvModel),
	Tree(TreeModel),
}

pub type State = Arc<Vec<ColModel>>;

pub fn empty_state(cfg: &RunCfg) -> State {
	Arc::new(
		cfg.cols
			.iter()
			.map(|c| if c.kind.is_tree() { ColModel::Tree(TreeModel::default()) } else { ColModel::Kv(KvModel::default()) })
			.collect(),
	)
}

impl KvModel {
	pub fn apply(&mut self, kind: ColKind, key: &[u8], op: &TxOp, cfg: &ColCfg) {
		match op {
			TxOp::Set(_, v) => {
				if kind.is_rc() {
					if let Some(e) = self.map.get_mut(key) {
						e.1 += 1;
					} else {
						self.map.insert(key.to_vec(), (Arc::new(v.bytes()), 1));
					}
				} else if kind.is_preimage() {
					// Replace is not supported: the value is determined by the key anyway.
					self.map.entry(key.to_vec()).or_insert_with(|| (Arc::new(v.bytes()), 1));
				} else {
					self.map.insert(key.to_vec(), (Arc::new(v.bytes()), 1));
				}
			},
			TxOp::Del(_) => {
				if kind.is_rc() {
					if let Some(e) = self.map.get_mut(key) {
						e.1 -= 1;
						if e.1 == 0 {
							self.map.remove(key);
						}
					}
				} else {
					self.map.remove(key);
				}
			},
			TxOp::Ref(_) | TxOp::RawRef(_) => {
				if kind.is_rc() {
					if let Some(e) = self.map.get_mut(key) {
						e.1 += 1;
					}
				}
			},
			_ => {},
		}
		let _ = cfg;
	}
}

/// Canonical digest of a state restricted to what the database can show.
pub fn state_digest(s: &State) -> u64 {
	let mut h = 0u64;
	for (i, c) in s.iter().enumerate() {
		h = fnv64(h, &[i as u8]);
		match c {
			ColModel::Kv(m) => {
				for (k, (v, rc)) in &m.map {
					h = fnv64(h, k);
					h = fnv64(h, v);
					h = fnv64(h, &rc.to_le_bytes());
				}
			},
			ColModel::Tree(t) => {
				for (k, (n, rc)) in &t.roots {
					h = fnv64(h, k);
					h = fnv64(h, &n.data);
					h = fnv64(h, &rc.to_le_bytes());
					h = mix64(h ^ n.children.len() as u64);
				}
				h = mix64(h ^ t.nodes.len() as u64);
			},
		}
	}
	h
}
