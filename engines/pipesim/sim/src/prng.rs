//! One integer decides everything: SplitMix64 streams derived from VERIF_SEED.

#[derive(Clone, Debug)]
pub struct Rng(pub u64);

impl Rng {
	pub fn new(seed: u64) -> Rng {
		Rng(seed ^ 0x9E37_79B9_7F4A_7C15)
	}
	/// Independent child stream.
	pub fn fork(&mut self, tag: u64) -> Rng {
		let a = self.next();
		Rng(a ^ tag.wrapping_mul(0xD6E8_FEB8_6659_FD93))
	}
	pub fn next(&mut self) -> u64 {
		self.0 = self.0.wrapping_add(0x9E37_79B9_7F4A_7C15);
		let mut z = self.0;
		z = (z ^ (z >> 30)).wrapping_mul(0xBF58_476D_1CE4_E5B9);
		z = (z ^ (z >> 27)).wrapping_mul(0x94D0_49BB_1331_11EB);
		z ^ (z >> 31)
	}
	/// Uniform in 0..n (n > 0).
	pub fn below(&mut self, n: u64) -> u64 {
		debug_assert!(n > 0);
		((self.next() as u128 * n as u128) >> 64) as u64
	}
	pub fn range(&mut self, lo: u64, hi_incl: u64) -> u64 {
		lo + self.below(hi_incl - lo + 1)
	}
	pub fn chance(&mut self, num: u64, den: u64) -> bool {
		self.below(den) < num
	}
	pub fn pick<'a, T>(&mut self, xs: &'a [T]) -> &'a T {
		&xs[self.below(xs.len() as u64) as usize]
	}
	/// Weighted choice: returns index.
	pub fn weighted(&mut self, w: &[u32]) -> usize {
		let total: u64 = w.iter().map(|x| *x as u64).sum();
		let mut r = self.below(total.max(1));
		for (i, x) in w.iter().enumerate() {
			if r < *x as u64 {
				return i
			}
			r -= *x as u64;
		}
		w.len() - 1
	}
	pub fn fill(&mut self, buf: &mut [u8]) {
		for c in buf.chunks_mut(8) {
			let v = self.next().to_le_bytes();
			c.copy_from_slice(&v[..c.len()]);
		}
	}
}

pub fn fnv64(h: u64, bytes: &[u8]) -> u64 {
	let mut h = if h == 0 { 0xcbf2_9ce4_8422_2325 } else { h };
	for b in bytes {
		h ^= *b as u64;
		h = h.wrapping_mul(0x0000_0100_0000_01B3);
	}
	h
}

pub fn mix64(mut z: u64) -> u64 {
	z = (z ^ (z >> 30)).wrapping_mul(0xBF58_476D_1CE4_E5B9);
	z = (z ^ (z >> 27)).wrapping_mul(0x94D0_49BB_1331_11EB);
	z ^ (z >> 31)
}
