#!/bin/bash
# Build the framework from files on disk only (offline).
set -e
cd "$(dirname "$0")"
export CARGO_NET_OFFLINE=true
for e in pipesim schedsim; do
  if [ -d engines/$e ]; then ( cd engines/$e && cargo build --release --offline ); fi
done
mkdir -p evidence replays
echo "setup done"
